// Corpus for the generated-code checks: every base type in every
// requiredness class, defaults, enums, typedef chains, containers of each
// hashability class, slice-annotated sets, unions, exceptions, a service.

enum Color {
    RED = 1,
    GREEN = 5,
    BLUE
}

typedef i64 Timestamp
typedef Timestamp Stamp2
typedef string Label
typedef binary Blob
typedef list<Label> Labels
typedef Prim PrimAlias

struct Prim {
    1: required bool b
    2: required byte i8f
    3: required i16 i16f
    4: required i32 i32f
    5: required i64 i64f
    6: required double d
    7: required string s
    8: required binary bin
}

struct Opt {
    1: optional bool b
    2: optional byte i8f
    3: optional i16 i16f
    4: optional i32 i32f
    5: optional i64 i64f
    6: optional double d
    7: optional string s
    8: optional binary bin
    9: optional Color c
    10: optional Stamp2 ts
}

struct Defaults {
    1: optional bool b = true
    2: optional byte i8f = -3
    3: optional i16 i16f = 300
    4: optional i32 i32f = 70000
    5: optional i64 i64f = 5000000000
    6: optional double d = 2.5
    7: optional string s = "hi"
    9: optional Color c = Color.GREEN
    10: required i32 req
    11: optional Label labelField
}

struct Lists {
    1: required list<i32> ints
    2: optional list<string> strs
    3: optional list<binary> bins
    4: optional list<Prim> structs
    5: optional list<list<i16>> nested
    6: optional Labels labels
    7: optional list<Color> colors
}

struct Sets {
    1: required set<i32> ints
    2: optional set<string> strs
    3: optional set<binary> bins
    4: optional set<Point> structs
    5: optional set<i64> (go.type = "slice") sliced
    6: optional set<list<i8>> lists
    7: optional set<Color> colors
}

struct Maps {
    1: required map<i32, string> intToStr
    2: optional map<string, Point> strToStruct
    3: optional map<binary, i16> binToInt
    4: optional map<Point, i32> structToInt
    5: optional map<i64, list<bool>> intToList
    6: optional map<Color, Color> colors
    7: optional map<double, double> doubles
}

struct Point {
    1: required i32 x
    2: optional i32 y
}

struct Nest {
    1: required Point p
    2: optional Opt o
    3: optional PrimAlias aliased
    4: optional Choice choice
    5: optional Blob blob
}

union Choice {
    1: i32 num
    2: string text
    3: Point point
    4: list<i16> items
    5: Color color
}

exception Oops {
    1: required string message
    2: optional i32 code = 7
}

service Calc {
    i32 add(1: i32 a, 2: optional i32 b) throws (1: Oops oops)
    void ping()
    Point where(1: required Point origin)
    // container / binary results (a result without a member is invalid) and
    // parameters with declared defaults
    list<i32> span(1: i32 lo, 2: i32 limit = 25, 3: optional Color tint = Color.GREEN)
    binary fetch(1: string key = "k")
    map<string, i32> tally()
}

// containers whose element / key / value type is a typedef of a container or
// of binary, and a required field whose type is a typedef of a list
typedef set<i32> IntSet
typedef map<string, i32> Counts

struct TypedefElems {
    1: optional list<Labels> listOfLists
    2: optional set<Blob> blobs
    3: optional map<string, Counts> maps
    4: required Labels reqLabels
    5: optional list<IntSet> sets
}

// two large values in one message (see HBig)
struct Big {
    1: optional string a
    2: optional binary b
}

// container and struct defaults (the oracle only demands that the two
// decoding paths agree for these)
struct ContainerDefaults {
    1: optional list<i32> nums = [1, 2]
    2: optional map<string, i32> counts = {"a": 1}
    3: optional set<string> tags = ["x"]
    4: optional i32 plain = 9
}

const string BANNER = "line one\r\nline \"two\"\\"
const string PLAIN = "hello"
const i32 ANSWER = 42
const i64 LARGE = 5000000000
const bool YES = true
const double RATIO = 2.5
const Color FAVORITE = Color.GREEN
const byte SMALL = -7

// single-field types used with two-element containers (see C14)
struct OneSliceSet {
    1: optional set<i64> (go.type = "slice") items
}

struct OneStructSet {
    1: optional set<Point> points
}

struct OneListKeyMap {
    1: optional map<list<i8>, i16> byList
}

struct OneStructKeyMap {
    1: optional map<Point, i16> byPoint
}

// optional fields whose types are typedefs of containers / binary (absent vs
// present-but-empty must stay distinguishable; see C14)
struct TypedefdOptA {
    1: optional Labels labels
    2: optional Blob blob
}

struct TypedefdOptB {
    1: optional IntSet ints
    2: optional Counts counts
}

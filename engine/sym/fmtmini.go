package sym

import (
	"go/types"

	"golang.org/x/tools/go/ssa"
	"strconv"
	"strings"
)

// miniSprintf formats with the real verbs when the format and every
// argument are concrete and of a simple kind (%s %q %v %d %t %x on strings,
// integers, bools, and values with Error()/String() methods, which are run
// symbolically). ok is false if anything is outside that subset; the caller
// then falls back to the opaque stub.
func (ip *Interp) miniSprintf(fr *frame, format Str, va Slice) (out string, ok bool) {
	f, conc := ip.concStr(format).concrete()
	if !conc {
		return "", false
	}
	va = ip.concSlice(va, "fmt args")
	args := make([]Iface, va.Len)
	for i := range args {
		a, isI := va.Base[va.Off+i].(Iface)
		if !isI {
			return "", false
		}
		args[i] = a
	}
	var sb strings.Builder
	ai := 0
	for i := 0; i < len(f); i++ {
		c := f[i]
		if c != '%' {
			sb.WriteByte(c)
			continue
		}
		i++
		if i >= len(f) {
			return "", false
		}
		verb := f[i]
		if verb == '%' {
			sb.WriteByte('%')
			continue
		}
		if ai >= len(args) {
			return "", false
		}
		a := args[ai]
		ai++
		s, isStr, n, isInt, b, isBool, okv := ip.fmtOperand(fr, a, verb)
		if !okv {
			return "", false
		}
		switch verb {
		case 's', 'v':
			switch {
			case isStr:
				sb.WriteString(s)
			case isInt:
				sb.WriteString(n)
			case isBool:
				sb.WriteString(strconv.FormatBool(b))
			default:
				return "", false
			}
		case 'q':
			if !isStr {
				return "", false
			}
			sb.WriteString(strconv.Quote(s))
		case 'd':
			if !isInt {
				return "", false
			}
			sb.WriteString(n)
		case 't':
			if !isBool {
				return "", false
			}
			sb.WriteString(strconv.FormatBool(b))
		default:
			return "", false
		}
	}
	if ai != len(args) {
		return "", false
	}
	return sb.String(), true
}

func (ip *Interp) fmtOperand(fr *frame, a Iface, verb byte) (s string, isStr bool, n string, isInt bool, b bool, isBool bool, ok bool) {
	if a.T == nil {
		return "<nil>", true, "", false, false, false, verb == 'v' || verb == 's'
	}
	// Error() / String() methods take precedence for %v %s %q
	if verb == 'v' || verb == 's' || verb == 'q' {
		for _, m := range []string{"Error", "String"} {
			fn := ip.lookupMethodOpt(a.T, m)
			if fn == nil {
				continue
			}
			sig := fn.Signature
			if sig.Params().Len() != 0 || sig.Results().Len() != 1 || !isString(sig.Results().At(0).Type()) {
				continue
			}
			if p, isPtr := a.V.(Ptr); isPtr && p.Cell == nil {
				return "<nil>", true, "", false, false, false, true
			}
			r := ip.callSSA(fr, fn, []Value{a.V}, nil)
			rs, isS := r.(Str)
			if !isS {
				return
			}
			cs, conc := ip.concStr(rs).concrete()
			if !conc {
				return
			}
			return cs, true, "", false, false, false, true
		}
	}
	switch v := a.V.(type) {
	case Str:
		cs, conc := ip.concStr(v).concrete()
		if !conc {
			return
		}
		return cs, true, "", false, false, false, true
	case *Term:
		if !v.IsConst() {
			return
		}
		bt, isB := a.T.Underlying().(*types.Basic)
		if !isB {
			return
		}
		switch {
		case bt.Info()&types.IsBoolean != 0:
			return "", false, "", false, v.Val == 1, true, true
		case bt.Info()&types.IsInteger != 0:
			if bt.Info()&types.IsUnsigned != 0 {
				return "", false, strconv.FormatUint(v.Val, 10), true, false, false, true
			}
			return "", false, strconv.FormatInt(sext(v.Val, v.W), 10), true, false, false, true
		}
	}
	return
}

// lookupMethodOpt returns the exported method name of t, or nil.
func (ip *Interp) lookupMethodOpt(t types.Type, name string) *ssa.Function {
	sel := ip.prog.MethodSets.MethodSet(t).Lookup(nil, name)
	if sel == nil {
		return nil
	}
	return ip.prog.MethodValue(sel)
}

package sym

import (
	"fmt"
	"go/types"
	"os"
	"strings"

	"golang.org/x/tools/go/packages"
	"golang.org/x/tools/go/ssa"
	"golang.org/x/tools/go/ssa/ssautil"
)

// Program is a loaded SSA program shared by all workers.
type Program struct {
	Prog  *ssa.Program
	Pkgs  []*ssa.Package
	Sizes types.Sizes
}

// LoadConfig says what to load.
type LoadConfig struct {
	Dir      string
	Patterns []string
	Overlay  map[string][]byte
	Tags     string
}

// Load type-checks and builds SSA for the given packages and dependencies.
func Load(cfg LoadConfig) (*Program, error) {
	pc := &packages.Config{
		Mode:    packages.LoadAllSyntax,
		Dir:     cfg.Dir,
		Overlay: cfg.Overlay,
		Env: append(os.Environ(), "GOFLAGS=-mod=mod", "GOPROXY=off", "GOSUMDB=off", "GOTOOLCHAIN=local",
			"CGO_ENABLED=0"),
	}
	if cfg.Tags != "" {
		pc.BuildFlags = []string{"-tags=" + cfg.Tags}
	}
	pkgs, err := packages.Load(pc, cfg.Patterns...)
	if err != nil {
		return nil, err
	}
	var errs []string
	packages.Visit(pkgs, nil, func(p *packages.Package) {
		for _, e := range p.Errors {
			errs = append(errs, e.Error())
		}
	})
	if len(errs) > 0 {
		if len(errs) > 10 {
			errs = errs[:10]
		}
		return nil, fmt.Errorf("package errors:\n%s", strings.Join(errs, "\n"))
	}
	prog, spkgs := ssautil.AllPackages(pkgs, ssa.InstantiateGenerics)
	prog.Build()
	var out []*ssa.Package
	for _, p := range spkgs {
		if p != nil {
			out = append(out, p)
		}
	}
	return &Program{Prog: prog, Pkgs: out, Sizes: types.SizesFor("gc", "amd64")}, nil
}

// DefaultInitAllow is the list of packages whose initialisers are interpreted.
func DefaultInitAllow(path string) bool {
	switch path {
	case "errors", "io", "bytes", "strings", "strconv", "unicode", "unicode/utf8", "unicode/utf16",
		"math", "math/bits", "sort", "slices", "maps", "cmp", "path", "path/filepath", "encoding/binary",
		"bufio", "io/fs", "internal/oserror", "internal/itoa", "internal/stringslite", "internal/byteorder",
		"text/scanner", "encoding/base64", "encoding/hex", "container/list", "iter", "unique":
		return true
	}
	if strings.HasPrefix(path, "go.uber.org/") {
		return !strings.HasPrefix(path, "go.uber.org/zap")
	}
	if strings.HasPrefix(path, "verif/") {
		return true
	}
	return false
}

// NewInterp creates an interpreter instance and runs package initialisers
// of the given root packages.
func NewInterp(p *Program, run *Run, solverKind string, timeoutMs int, roots []string) (*Interp, error) {
	ip := &Interp{
		prog: p.Prog, st: NewStore(), sizes: p.Sizes,
		globals: map[*ssa.Global]*Value{}, fnInfos: map[*ssa.Function]*fnInfo{}, consts: map[*ssa.Const]Value{},
		implCache: map[[2]types.Type]bool{}, initDone: map[*ssa.Package]bool{}, initSkipped: map[*ssa.Package]bool{},
		intrinsics: map[string]intrinsic{}, pools: map[*Value][]Value{}, funcsHit: map[*ssa.Function]bool{}, stubsHit: map[string]bool{},
		run: run, InitAllow: DefaultInitAllow,
	}
	if t := ip.namedType("runtime", "errorString"); t != nil {
		ip.runtimeErrT = t
	}
	ip.registerIntrinsics()
	ip.registerHarnessAPI()
	sv, err := NewSolver(solverKind, ip.st, timeoutMs)
	if err != nil {
		return nil, err
	}
	ip.sv = sv
	// run initialisers
	ip.inInit = true
	for _, root := range roots {
		var pkg *ssa.Package
		for _, q := range p.Prog.AllPackages() {
			if q.Pkg.Path() == root {
				pkg = q
			}
		}
		if pkg == nil {
			return nil, fmt.Errorf("root package %s not loaded", root)
		}
		initFn := pkg.Func("init")
		var ierr error
		func() {
			defer func() {
				if e := recover(); e != nil {
					switch e := e.(type) {
					case pathEnd:
						ierr = fmt.Errorf("init of %s: %s: %s", root, e.Kind, e.Msg)
					case goPanic:
						ierr = fmt.Errorf("init of %s panicked: %s at %s", root, describe(e.V), e.Site)
					default:
						panic(fmt.Sprintf("engine failure: %v\n  while interpreting %s", e, ip.Where()))
					}
				}
			}()
			ip.callSSA(nil, initFn, nil, nil)
		}()
		if ierr != nil {
			return nil, ierr
		}
	}
	ip.inInit = false
	return ip, nil
}

// InitPoison lists unmodelled initialiser calls that were poisoned.
func (ip *Interp) InitPoison() []string { return ip.initPoison }

// Close releases the solver.
func (ip *Interp) Close() { ip.sv.Close() }

package sym

import (
	"bytes"
	"context"
	"encoding/json"
	"fmt"
	"os"
	"os/exec"
	"path/filepath"
	"strings"
	"sync"
	"time"
)

// Scratch directories of the running process; removed on normal exit by their
// owners and, through CleanupTemps, when the process is told to terminate.
var (
	tempMu   sync.Mutex
	tempDirs = map[string]bool{}
)

// RegisterTemp records a scratch directory for CleanupTemps.
func RegisterTemp(dir string) {
	tempMu.Lock()
	tempDirs[dir] = true
	tempMu.Unlock()
}

// CleanupTemps removes every registered scratch directory.
func CleanupTemps() {
	tempMu.Lock()
	defer tempMu.Unlock()
	for d := range tempDirs {
		os.RemoveAll(d)
	}
}

// NativeCase is one replay case for the native harness runner.
type NativeCase struct {
	Harness string         `json:"harness"`
	Params  map[string]int `json:"params"`
	Draws   []uint64       `json:"draws"`
}

// NativeResult is what the native run of a case produced.
type NativeResult struct {
	Outcome   string   `json:"outcome"`
	Msg       string   `json:"msg"`
	Obs       []string `json:"obs"`
	Exhausted bool     `json:"exhausted"`
	Unused    int      `json:"unused"`
	ElapsedMs int64    `json:"elapsed_ms"`
}

// HarnessFiles returns the overlay (virtual path -> contents) that injects
// the harness sources for pkgDir (relative to repo) with package name pkgName.
func HarnessFiles(verifDir, repo, pkgDir, pkgName string, harnessFiles []string, withTest bool) (map[string][]byte, error) {
	ov := map[string][]byte{}
	tmpl := []string{"zz_verif_support.go", "zz_verif_f64.go"}
	if withTest {
		tmpl = append(tmpl, "zz_verif_replay_test.go")
	}
	for _, t := range tmpl {
		b, err := os.ReadFile(filepath.Join(verifDir, "harness", t+".tmpl"))
		if err != nil {
			return nil, err
		}
		b = bytes.ReplaceAll(b, []byte("PKGNAME"), []byte(pkgName))
		ov[filepath.Join(repo, pkgDir, t)] = b
	}
	for _, f := range harnessFiles {
		b, err := os.ReadFile(f)
		if err != nil {
			return nil, err
		}
		name := filepath.Base(f)
		name = strings.TrimSuffix(name, ".txt")
		ov[filepath.Join(repo, pkgDir, name)] = b
	}
	return ov, nil
}

// RunNative runs cases natively through `go test -overlay`.
func RunNative(repo, pkgDir string, overlay map[string][]byte, cases []NativeCase, timeout time.Duration) ([]NativeResult, string, error) {
	tmp, err := os.MkdirTemp("", "symgo-replay-")
	if err != nil {
		return nil, "", err
	}
	RegisterTemp(tmp)
	defer os.RemoveAll(tmp)
	repl := map[string]string{}
	i := 0
	for vp, content := range overlay {
		real := filepath.Join(tmp, fmt.Sprintf("f%d_%s", i, filepath.Base(vp)))
		i++
		if err := os.WriteFile(real, content, 0o644); err != nil {
			return nil, "", err
		}
		repl[vp] = real
	}
	ovJSON, _ := json.Marshal(map[string]interface{}{"Replace": repl})
	ovPath := filepath.Join(tmp, "overlay.json")
	os.WriteFile(ovPath, ovJSON, 0o644)
	casesJSON, _ := json.Marshal(cases)
	casesPath := filepath.Join(tmp, "cases.json")
	os.WriteFile(casesPath, casesJSON, 0o644)
	outPath := filepath.Join(tmp, "out.json")
	ctx, cancel := context.WithTimeout(context.Background(), timeout+120*time.Second)
	defer cancel()
	binPath := filepath.Join(tmp, "replay.test")
	build := exec.CommandContext(ctx, "go", "test", "-c", "-o", binPath, "-tags", "verif", "-vet=off", "-overlay", ovPath, "./"+pkgDir)
	build.Dir = repo
	build.Env = append(os.Environ(), "GOFLAGS=-mod=mod", "GOPROXY=off", "GOSUMDB=off", "GOTOOLCHAIN=local")
	bout, berr := build.CombinedOutput()
	if berr != nil {
		return nil, string(bout), fmt.Errorf("building the native replay binary failed: %v", berr)
	}
	cmd := exec.CommandContext(ctx, binPath, "-test.run", "^TestVerifReplay$", "-test.timeout", fmt.Sprintf("%ds", int(timeout.Seconds())))
	cmd.Dir = tmp
	cmd.Env = append(os.Environ(), "VERIF_REPLAY_FILE="+casesPath, "VERIF_REPLAY_OUT="+outPath)
	outb, err := cmd.CombinedOutput()
	log := string(bout) + string(outb)
	data, rerr := os.ReadFile(outPath)
	if rerr != nil {
		return nil, log, fmt.Errorf("native replay produced no results (go test: %v)", err)
	}
	var res []NativeResult
	if jerr := json.Unmarshal(data, &res); jerr != nil {
		return nil, log, jerr
	}
	return res, log, nil
}

// CompareWitness says whether the native result agrees with the engine's
// prediction for a witness.
func CompareWitness(w Witness, n NativeResult) (bool, string) {
	want := w.Outcome
	got := n.Outcome
	if strings.HasPrefix(want, "panic:") {
		want = "panic"
	}
	if want != got {
		return false, fmt.Sprintf("outcome: engine %q native %q %s", w.Outcome, n.Outcome, firstLine(n.Msg))
	}
	if n.Exhausted {
		return false, "native run drew more inputs than the engine"
	}
	if got == "end" && n.Unused != 0 {
		return false, fmt.Sprintf("native run left %d draws unused", n.Unused)
	}
	if got == "end" {
		if len(w.Obs) != len(n.Obs) {
			return false, fmt.Sprintf("observation count: engine %d native %d", len(w.Obs), len(n.Obs))
		}
	}
	for i := 0; i < len(w.Obs) && i < len(n.Obs); i++ {
		if w.Obs[i] != n.Obs[i] {
			return false, fmt.Sprintf("observation %d: engine %q native %q", i, w.Obs[i], n.Obs[i])
		}
	}
	return true, ""
}

func firstLine(s string) string {
	if i := strings.IndexByte(s, '\n'); i >= 0 {
		return s[:i]
	}
	return s
}

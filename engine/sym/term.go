// Package sym is a path-forking symbolic interpreter for go/ssa with an SMT
// back end. See /verif/DESIGN.md.
package sym

import (
	"fmt"
	"math"
	"math/bits"
	"strconv"
	"strings"
)

// Op is a term operator.
type Op uint8

// Term operators. Width 0 means sort Bool; otherwise (_ BitVec w).
const (
	OpConst Op = iota
	OpVar
	OpNot // bool
	OpAnd
	OpOr
	OpIte
	OpEq
	OpAdd
	OpSub
	OpMul
	OpUDiv
	OpURem
	OpSDiv
	OpSRem
	OpBAnd
	OpBOr
	OpBXor
	OpBNot
	OpNeg
	OpShl
	OpLShr
	OpAShr
	OpULt
	OpULe
	OpSLt
	OpSLe
	OpConcat
	OpExtract // val = hi<<8|lo
	OpZExt    // to width w
	OpSExt
	OpFEq // float64/32 compare on bit patterns; arg width 32/64
	OpFLt
	OpFLe
	OpFIsNaN
	OpB2BV // bool -> bv1 (ite c #b1 #b0)
)

var opNames = [...]string{
	OpNot: "not", OpAnd: "and", OpOr: "or", OpIte: "ite", OpEq: "=",
	OpAdd: "bvadd", OpSub: "bvsub", OpMul: "bvmul", OpUDiv: "bvudiv", OpURem: "bvurem",
	OpSDiv: "bvsdiv", OpSRem: "bvsrem", OpBAnd: "bvand", OpBOr: "bvor", OpBXor: "bvxor",
	OpBNot: "bvnot", OpNeg: "bvneg", OpShl: "bvshl", OpLShr: "bvlshr", OpAShr: "bvashr",
	OpULt: "bvult", OpULe: "bvule", OpSLt: "bvslt", OpSLe: "bvsle", OpConcat: "concat",
}

// Term is a hash-consed SMT term.
type Term struct {
	Op   Op
	W    int // 0 = Bool
	Args []*Term
	Val  uint64 // constant value (masked), or extract hi<<8|lo
	Name string // variable name
	ID   int

	vars      []uint64 // bitset of variable indices (lazily built)
	varsBuilt bool
	evEpoch   uint64
	evVal     uint64
	mark      uint64 // printer epoch
}

// IsConst reports whether t is a constant.
func (t *Term) IsConst() bool { return t.Op == OpConst }

// IsTrue / IsFalse for Bool constants.
func (t *Term) IsTrue() bool  { return t.Op == OpConst && t.W == 0 && t.Val == 1 }
func (t *Term) IsFalse() bool { return t.Op == OpConst && t.W == 0 && t.Val == 0 }

// Store owns hash-consed terms. Not safe for concurrent use.
type Store struct {
	tab    map[string]*Term
	nextID int
	Vars   []*Term // all variables in creation order
	varIdx map[string]int
	epoch  uint64
	T, F   *Term
}

// NewStore returns an empty term store.
func NewStore() *Store {
	s := &Store{tab: map[string]*Term{}, varIdx: map[string]int{}}
	s.T = s.Bool(true)
	s.F = s.Bool(false)
	return s
}

func mask(w int) uint64 {
	if w >= 64 {
		return ^uint64(0)
	}
	return (uint64(1) << uint(w)) - 1
}

func sext(v uint64, w int) int64 {
	if w >= 64 {
		return int64(v)
	}
	sh := uint(64 - w)
	return int64(v<<sh) >> sh
}

func (s *Store) intern(op Op, w int, val uint64, name string, args ...*Term) *Term {
	var sb strings.Builder
	sb.WriteByte(byte(op))
	sb.WriteByte(byte(w))
	sb.WriteString(strconv.FormatUint(val, 36))
	sb.WriteByte('|')
	sb.WriteString(name)
	for _, a := range args {
		sb.WriteByte(',')
		sb.WriteString(strconv.Itoa(a.ID))
	}
	k := sb.String()
	if t, ok := s.tab[k]; ok {
		return t
	}
	t := &Term{Op: op, W: w, Val: val, Name: name, ID: s.nextID}
	if len(args) > 0 {
		t.Args = append([]*Term(nil), args...)
	}
	s.nextID++
	s.tab[k] = t
	return t
}

// Const returns a bit-vector constant.
func (s *Store) Const(w int, v uint64) *Term {
	if w == 0 {
		return s.Bool(v != 0)
	}
	return s.intern(OpConst, w, v&mask(w), "")
}

// Bool returns a Boolean constant.
func (s *Store) Bool(b bool) *Term {
	v := uint64(0)
	if b {
		v = 1
	}
	return s.intern(OpConst, 0, v, "")
}

// Var returns the variable with the given name and width (0 = Bool).
func (s *Store) Var(name string, w int) *Term {
	t := s.intern(OpVar, w, 0, name)
	if _, ok := s.varIdx[name]; !ok {
		s.varIdx[name] = len(s.Vars)
		s.Vars = append(s.Vars, t)
	}
	return t
}

// ---- Boolean connectives ----

func (s *Store) Not(a *Term) *Term {
	if a.W != 0 {
		panic("Not on non-bool")
	}
	if a.IsConst() {
		return s.Bool(a.Val == 0)
	}
	if a.Op == OpNot {
		return a.Args[0]
	}
	return s.intern(OpNot, 0, 0, "", a)
}

func (s *Store) And(a, b *Term) *Term {
	if a.IsConst() {
		if a.Val == 0 {
			return a
		}
		return b
	}
	if b.IsConst() {
		if b.Val == 0 {
			return b
		}
		return a
	}
	if a == b {
		return a
	}
	if a.ID > b.ID {
		a, b = b, a
	}
	return s.intern(OpAnd, 0, 0, "", a, b)
}

func (s *Store) Or(a, b *Term) *Term {
	if a.IsConst() {
		if a.Val == 1 {
			return a
		}
		return b
	}
	if b.IsConst() {
		if b.Val == 1 {
			return b
		}
		return a
	}
	if a == b {
		return a
	}
	if a.ID > b.ID {
		a, b = b, a
	}
	return s.intern(OpOr, 0, 0, "", a, b)
}

// AndAll conjoins ts.
func (s *Store) AndAll(ts ...*Term) *Term {
	r := s.T
	for _, t := range ts {
		r = s.And(r, t)
	}
	return r
}

// Implies returns a => b.
func (s *Store) Implies(a, b *Term) *Term { return s.Or(s.Not(a), b) }

// Ite builds if-then-else over Bool or BV.
func (s *Store) Ite(c, a, b *Term) *Term {
	if c.IsConst() {
		if c.Val == 1 {
			return a
		}
		return b
	}
	if a == b {
		return a
	}
	if a.W != b.W {
		panic(fmt.Sprintf("Ite width mismatch %d %d", a.W, b.W))
	}
	if a.W == 0 {
		if a.IsConst() && b.IsConst() {
			if a.Val == 1 {
				return c
			}
			return s.Not(c)
		}
		if a.IsTrue() {
			return s.Or(c, b)
		}
		if a.IsFalse() {
			return s.And(s.Not(c), b)
		}
		if b.IsTrue() {
			return s.Or(s.Not(c), a)
		}
		if b.IsFalse() {
			return s.And(c, a)
		}
	}
	return s.intern(OpIte, a.W, 0, "", c, a, b)
}

// Eq builds equality over Bool or BV terms of the same sort.
func (s *Store) Eq(a, b *Term) *Term {
	if a.W != b.W {
		panic(fmt.Sprintf("Eq width mismatch %d %d", a.W, b.W))
	}
	if a == b {
		return s.T
	}
	if a.IsConst() && b.IsConst() {
		return s.Bool(a.Val == b.Val)
	}
	if a.W == 0 {
		if a.IsConst() {
			a, b = b, a
		}
		if b.IsConst() {
			if b.Val == 1 {
				return a
			}
			return s.Not(a)
		}
	} else {
		if a.IsConst() {
			a, b = b, a
		}
		if b.IsConst() {
			// (zext x) == c
			if a.Op == OpZExt {
				x := a.Args[0]
				if b.Val&^mask(x.W) != 0 {
					return s.F
				}
				return s.Eq(x, s.Const(x.W, b.Val))
			}
			if a.Op == OpSExt {
				x := a.Args[0]
				if uint64(sext(b.Val&mask(x.W), x.W))&mask(a.W) != b.Val {
					return s.F
				}
				return s.Eq(x, s.Const(x.W, b.Val))
			}
			if a.Op == OpIte && a.Args[1].IsConst() && a.Args[2].IsConst() {
				// ite(c, k1, k2) == k
				e1 := a.Args[1].Val == b.Val
				e2 := a.Args[2].Val == b.Val
				switch {
				case e1 && e2:
					return s.T
				case e1:
					return a.Args[0]
				case e2:
					return s.Not(a.Args[0])
				default:
					return s.F
				}
			}
			if a.Op == OpB2BV {
				if b.Val == 1 {
					return a.Args[0]
				}
				return s.Not(a.Args[0])
			}
		}
	}
	if a.ID > b.ID {
		a, b = b, a
	}
	return s.intern(OpEq, 0, 0, "", a, b)
}

// ---- bit-vector operations ----

func constFold2(op Op, w int, x, y uint64) (uint64, bool) {
	m := mask(w)
	switch op {
	case OpAdd:
		return (x + y) & m, true
	case OpSub:
		return (x - y) & m, true
	case OpMul:
		return (x * y) & m, true
	case OpUDiv:
		if y == 0 {
			return m, true
		}
		return x / y, true
	case OpURem:
		if y == 0 {
			return x, true
		}
		return x % y, true
	case OpSDiv:
		sx, sy := sext(x, w), sext(y, w)
		if sy == 0 {
			if sx < 0 {
				return 1, true
			}
			return m, true
		}
		if sy == -1 {
			return uint64(-sx) & m, true
		}
		return uint64(sx/sy) & m, true
	case OpSRem:
		sx, sy := sext(x, w), sext(y, w)
		if sy == 0 {
			return x, true
		}
		if sy == -1 {
			return 0, true
		}
		return uint64(sx%sy) & m, true
	case OpBAnd:
		return x & y, true
	case OpBOr:
		return x | y, true
	case OpBXor:
		return x ^ y, true
	case OpShl:
		if y >= uint64(w) {
			return 0, true
		}
		return (x << y) & m, true
	case OpLShr:
		if y >= uint64(w) {
			return 0, true
		}
		return x >> y, true
	case OpAShr:
		sx := sext(x, w)
		if y >= uint64(w) {
			y = uint64(w - 1)
		}
		return uint64(sx>>y) & m, true
	}
	return 0, false
}

// Bin builds a binary bit-vector operation (arithmetic/bitwise/shift).
func (s *Store) Bin(op Op, a, b *Term) *Term {
	if a.W != b.W || a.W == 0 {
		panic(fmt.Sprintf("Bin %v width mismatch %d %d", op, a.W, b.W))
	}
	w := a.W
	if a.IsConst() && b.IsConst() {
		if v, ok := constFold2(op, w, a.Val, b.Val); ok {
			return s.Const(w, v)
		}
	}
	switch op {
	case OpAdd:
		if a.IsConst() && a.Val == 0 {
			return b
		}
		if b.IsConst() && b.Val == 0 {
			return a
		}
		// (x + c1) + c2
		if b.IsConst() && a.Op == OpAdd && a.Args[1].IsConst() {
			return s.Bin(OpAdd, a.Args[0], s.Const(w, a.Args[1].Val+b.Val))
		}
		if a.IsConst() {
			a, b = b, a
		}
	case OpSub:
		if b.IsConst() && b.Val == 0 {
			return a
		}
		if a == b {
			return s.Const(w, 0)
		}
		if b.IsConst() {
			return s.Bin(OpAdd, a, s.Const(w, -b.Val))
		}
	case OpMul:
		if a.IsConst() {
			a, b = b, a
		}
		if b.IsConst() {
			if b.Val == 0 {
				return b
			}
			if b.Val == 1 {
				return a
			}
		}
	case OpBAnd:
		if a.IsConst() {
			a, b = b, a
		}
		if b.IsConst() {
			if b.Val == 0 {
				return b
			}
			if b.Val == mask(w) {
				return a
			}
			if a.Op == OpZExt && b.Val&mask(a.Args[0].W) == mask(a.Args[0].W) {
				return a
			}
		}
		if a == b {
			return a
		}
	case OpBOr:
		if a.IsConst() {
			a, b = b, a
		}
		if b.IsConst() {
			if b.Val == 0 {
				return a
			}
			if b.Val == mask(w) {
				return b
			}
		}
		if a == b {
			return a
		}
	case OpBXor:
		if a.IsConst() {
			a, b = b, a
		}
		if b.IsConst() && b.Val == 0 {
			return a
		}
		if a == b {
			return s.Const(w, 0)
		}
	case OpShl, OpLShr, OpAShr:
		if b.IsConst() && b.Val == 0 {
			return a
		}
		if a.IsConst() && a.Val == 0 {
			return a
		}
		if b.IsConst() && b.Val >= uint64(w) && op != OpAShr {
			return s.Const(w, 0)
		}
	}
	return s.intern(op, w, 0, "", a, b)
}

// BNot / Neg.
func (s *Store) BNot(a *Term) *Term {
	if a.IsConst() {
		return s.Const(a.W, ^a.Val)
	}
	if a.Op == OpBNot {
		return a.Args[0]
	}
	return s.intern(OpBNot, a.W, 0, "", a)
}

func (s *Store) Neg(a *Term) *Term {
	if a.IsConst() {
		return s.Const(a.W, -a.Val)
	}
	return s.intern(OpNeg, a.W, 0, "", a)
}

// Cmp builds an ordering comparison.
func (s *Store) Cmp(op Op, a, b *Term) *Term {
	if a.W != b.W || a.W == 0 {
		panic(fmt.Sprintf("Cmp width mismatch %d %d", a.W, b.W))
	}
	if a.IsConst() && b.IsConst() {
		switch op {
		case OpULt:
			return s.Bool(a.Val < b.Val)
		case OpULe:
			return s.Bool(a.Val <= b.Val)
		case OpSLt:
			return s.Bool(sext(a.Val, a.W) < sext(b.Val, b.W))
		case OpSLe:
			return s.Bool(sext(a.Val, a.W) <= sext(b.Val, b.W))
		}
	}
	if a == b {
		return s.Bool(op == OpULe || op == OpSLe)
	}
	// zext(x) cmp const where both are nonneg and small: compare on x unsigned.
	if a.Op == OpZExt && b.IsConst() && a.Args[0].W < a.W {
		x := a.Args[0]
		sb := sext(b.Val, b.W)
		signed := op == OpSLt || op == OpSLe
		if signed && sb < 0 {
			return s.F // zext >= 0
		}
		if (!signed || sb >= 0) && b.Val > mask(x.W) {
			return s.T
		}
		if b.Val <= mask(x.W) {
			if op == OpSLt {
				op = OpULt
			} else if op == OpSLe {
				op = OpULe
			}
			return s.Cmp(op, x, s.Const(x.W, b.Val))
		}
	}
	if b.Op == OpZExt && a.IsConst() && b.Args[0].W < b.W {
		x := b.Args[0]
		sa := sext(a.Val, a.W)
		signed := op == OpSLt || op == OpSLe
		if signed && sa < 0 {
			return s.T
		}
		if a.Val > mask(x.W) {
			return s.F
		}
		if op == OpSLt {
			op = OpULt
		} else if op == OpSLe {
			op = OpULe
		}
		return s.Cmp(op, s.Const(x.W, a.Val), x)
	}
	if op == OpULt && b.IsConst() && b.Val == 0 {
		return s.F
	}
	if op == OpULe && a.IsConst() && a.Val == 0 {
		return s.T
	}
	return s.intern(op, 0, 0, "", a, b)
}

// Extract returns bits hi..lo of a.
func (s *Store) Extract(a *Term, hi, lo int) *Term {
	w := hi - lo + 1
	if lo == 0 && w == a.W {
		return a
	}
	if a.IsConst() {
		return s.Const(w, a.Val>>uint(lo))
	}
	switch a.Op {
	case OpZExt:
		x := a.Args[0]
		if hi < x.W {
			return s.Extract(x, hi, lo)
		}
		if lo >= x.W {
			return s.Const(w, 0)
		}
		if lo == 0 {
			return s.ZExt(x, w)
		}
	case OpSExt:
		x := a.Args[0]
		if hi < x.W {
			return s.Extract(x, hi, lo)
		}
		if lo == 0 {
			return s.SExt(x, w)
		}
	case OpConcat:
		hiT, loT := a.Args[0], a.Args[1]
		if hi < loT.W {
			return s.Extract(loT, hi, lo)
		}
		if lo >= loT.W {
			return s.Extract(hiT, hi-loT.W, lo-loT.W)
		}
	case OpExtract:
		lo0 := int(a.Val & 0xff)
		return s.Extract(a.Args[0], hi+lo0, lo+lo0)
	case OpBOr, OpBAnd, OpBXor:
		// push extract through bitwise ops when it simplifies at least one side
		x := s.Extract(a.Args[0], hi, lo)
		y := s.Extract(a.Args[1], hi, lo)
		if x.IsConst() || y.IsConst() || x.Op == OpVar || y.Op == OpVar {
			return s.Bin(a.Op, x, y)
		}
	case OpShl:
		if a.Args[1].IsConst() {
			k := int(a.Args[1].Val)
			if lo >= k {
				return s.Extract(a.Args[0], hi-k, lo-k)
			}
			if hi < k {
				return s.Const(w, 0)
			}
		}
	case OpLShr:
		if a.Args[1].IsConst() {
			k := int(a.Args[1].Val)
			if hi+k < a.W {
				return s.Extract(a.Args[0], hi+k, lo+k)
			}
		}
	case OpIte:
		if a.Args[1].IsConst() && a.Args[2].IsConst() {
			return s.Ite(a.Args[0], s.Extract(a.Args[1], hi, lo), s.Extract(a.Args[2], hi, lo))
		}
	}
	return s.intern(OpExtract, w, uint64(hi)<<8|uint64(lo), "", a)
}

// ZExt zero-extends (or returns a if same width).
func (s *Store) ZExt(a *Term, w int) *Term {
	if w == a.W {
		return a
	}
	if w < a.W {
		return s.Extract(a, w-1, 0)
	}
	if a.IsConst() {
		return s.Const(w, a.Val)
	}
	if a.Op == OpZExt {
		return s.ZExt(a.Args[0], w)
	}
	return s.intern(OpZExt, w, 0, "", a)
}

// SExt sign-extends.
func (s *Store) SExt(a *Term, w int) *Term {
	if w == a.W {
		return a
	}
	if w < a.W {
		return s.Extract(a, w-1, 0)
	}
	if a.IsConst() {
		return s.Const(w, uint64(sext(a.Val, a.W)))
	}
	if a.Op == OpZExt {
		return s.ZExt(a.Args[0], w)
	}
	if a.Op == OpSExt {
		return s.SExt(a.Args[0], w)
	}
	return s.intern(OpSExt, w, 0, "", a)
}

// Concat returns hi ++ lo.
func (s *Store) Concat(hi, lo *Term) *Term {
	if hi.IsConst() && lo.IsConst() && hi.W+lo.W <= 64 {
		return s.Const(hi.W+lo.W, hi.Val<<uint(lo.W)|lo.Val)
	}
	return s.intern(OpConcat, hi.W+lo.W, 0, "", hi, lo)
}

// B2BV converts Bool to a 1-bit vector of width w (0 or 1).
func (s *Store) B2BV(c *Term, w int) *Term {
	if c.IsConst() {
		return s.Const(w, c.Val)
	}
	return s.ZExt(s.intern(OpB2BV, 1, 0, "", c), w)
}

// FCmp compares two float bit patterns (width 32 or 64).
func (s *Store) FCmp(op Op, a, b *Term) *Term {
	if a.IsConst() && b.IsConst() {
		var x, y float64
		if a.W == 64 {
			x, y = math.Float64frombits(a.Val), math.Float64frombits(b.Val)
		} else {
			x, y = float64(math.Float32frombits(uint32(a.Val))), float64(math.Float32frombits(uint32(b.Val)))
		}
		switch op {
		case OpFEq:
			return s.Bool(x == y)
		case OpFLt:
			return s.Bool(x < y)
		case OpFLe:
			return s.Bool(x <= y)
		}
	}
	return s.intern(op, 0, 0, "", a, b)
}

// FIsNaN on a float bit pattern.
func (s *Store) FIsNaN(a *Term) *Term {
	if a.IsConst() {
		if a.W == 64 {
			return s.Bool(math.IsNaN(math.Float64frombits(a.Val)))
		}
		return s.Bool(math.IsNaN(float64(math.Float32frombits(uint32(a.Val)))))
	}
	return s.intern(OpFIsNaN, 0, 0, "", a)
}

// ---- variable sets ----

func (s *Store) varsOf(t *Term) []uint64 {
	if t.varsBuilt {
		return t.vars
	}
	var v []uint64
	if t.Op == OpVar {
		i := s.varIdx[t.Name]
		v = make([]uint64, i/64+1)
		v[i/64] |= 1 << uint(i%64)
	} else if len(t.Args) == 1 {
		v = s.varsOf(t.Args[0]) // shared, never mutated
	} else {
		n := 0
		for _, a := range t.Args {
			if l := len(s.varsOf(a)); l > n {
				n = l
			}
		}
		if n > 0 {
			v = make([]uint64, n)
			for _, a := range t.Args {
				for i, x := range a.vars {
					v[i] |= x
				}
			}
		}
	}
	t.vars = v
	t.varsBuilt = true
	return v
}

func bitsIntersect(a, b []uint64) bool {
	n := len(a)
	if len(b) < n {
		n = len(b)
	}
	for i := 0; i < n; i++ {
		if a[i]&b[i] != 0 {
			return true
		}
	}
	return false
}

func bitsOr(a, b []uint64) []uint64 {
	if len(b) > len(a) {
		na := make([]uint64, len(b))
		copy(na, a)
		a = na
	}
	for i, x := range b {
		a[i] |= x
	}
	return a
}

func bitsCount(a []uint64) int {
	n := 0
	for _, x := range a {
		n += bits.OnesCount64(x)
	}
	return n
}

// ---- evaluation under a model ----

// Model maps variable names to values.
type Model map[string]uint64

// Eval evaluates t under m (missing variables are 0).
func (s *Store) Eval(t *Term, m Model) uint64 {
	s.epoch++
	return s.eval(t, m)
}

// EvalMany evaluates several terms under the same model sharing the cache.
func (s *Store) EvalMany(ts []*Term, m Model) []uint64 {
	s.epoch++
	out := make([]uint64, len(ts))
	for i, t := range ts {
		out[i] = s.eval(t, m)
	}
	return out
}

func f64(w int, v uint64) float64 {
	if w == 64 {
		return math.Float64frombits(v)
	}
	return float64(math.Float32frombits(uint32(v)))
}

func (s *Store) eval(t *Term, m Model) uint64 {
	if t.Op == OpConst {
		return t.Val
	}
	if t.evEpoch == s.epoch {
		return t.evVal
	}
	var r uint64
	switch t.Op {
	case OpVar:
		r = m[t.Name] & mask(maxInt(t.W, 1))
	case OpNot:
		r = 1 - s.eval(t.Args[0], m)
	case OpAnd:
		r = s.eval(t.Args[0], m) & s.eval(t.Args[1], m)
	case OpOr:
		r = s.eval(t.Args[0], m) | s.eval(t.Args[1], m)
	case OpIte:
		if s.eval(t.Args[0], m) == 1 {
			r = s.eval(t.Args[1], m)
		} else {
			r = s.eval(t.Args[2], m)
		}
	case OpEq:
		if s.eval(t.Args[0], m) == s.eval(t.Args[1], m) {
			r = 1
		}
	case OpAdd, OpSub, OpMul, OpUDiv, OpURem, OpSDiv, OpSRem, OpBAnd, OpBOr, OpBXor, OpShl, OpLShr, OpAShr:
		r, _ = constFold2(t.Op, t.W, s.eval(t.Args[0], m), s.eval(t.Args[1], m))
	case OpBNot:
		r = ^s.eval(t.Args[0], m) & mask(t.W)
	case OpNeg:
		r = -s.eval(t.Args[0], m) & mask(t.W)
	case OpULt, OpULe, OpSLt, OpSLe:
		x, y := s.eval(t.Args[0], m), s.eval(t.Args[1], m)
		w := t.Args[0].W
		var b bool
		switch t.Op {
		case OpULt:
			b = x < y
		case OpULe:
			b = x <= y
		case OpSLt:
			b = sext(x, w) < sext(y, w)
		case OpSLe:
			b = sext(x, w) <= sext(y, w)
		}
		if b {
			r = 1
		}
	case OpConcat:
		r = s.eval(t.Args[0], m)<<uint(t.Args[1].W) | s.eval(t.Args[1], m)
	case OpExtract:
		lo := uint(t.Val & 0xff)
		r = (s.eval(t.Args[0], m) >> lo) & mask(t.W)
	case OpZExt:
		r = s.eval(t.Args[0], m)
	case OpSExt:
		r = uint64(sext(s.eval(t.Args[0], m), t.Args[0].W)) & mask(t.W)
	case OpB2BV:
		r = s.eval(t.Args[0], m)
	case OpFEq, OpFLt, OpFLe:
		x, y := f64(t.Args[0].W, s.eval(t.Args[0], m)), f64(t.Args[1].W, s.eval(t.Args[1], m))
		var b bool
		switch t.Op {
		case OpFEq:
			b = x == y
		case OpFLt:
			b = x < y
		case OpFLe:
			b = x <= y
		}
		if b {
			r = 1
		}
	case OpFIsNaN:
		if math.IsNaN(f64(t.Args[0].W, s.eval(t.Args[0], m))) {
			r = 1
		}
	default:
		panic(fmt.Sprintf("eval: op %d", t.Op))
	}
	t.evEpoch = s.epoch
	t.evVal = r
	return r
}

func maxInt(a, b int) int {
	if a > b {
		return a
	}
	return b
}

// ---- SMT-LIB printing ----

func sortName(w int) string {
	if w == 0 {
		return "Bool"
	}
	return "(_ BitVec " + strconv.Itoa(w) + ")"
}

func constText(w int, v uint64) string {
	if w == 0 {
		if v != 0 {
			return "true"
		}
		return "false"
	}
	if w%4 == 0 {
		return fmt.Sprintf("#x%0*x", w/4, v)
	}
	return fmt.Sprintf("#b%0*b", w, v)
}

func fpSort(w int) string {
	if w == 64 {
		return "(_ to_fp 11 53)"
	}
	return "(_ to_fp 8 24)"
}

// ref returns the textual reference of t inside a query.
func ref(t *Term) string {
	switch t.Op {
	case OpConst:
		return constText(t.W, t.Val)
	case OpVar:
		return t.Name
	}
	return "t" + strconv.Itoa(t.ID)
}

func body(t *Term) string {
	var sb strings.Builder
	switch t.Op {
	case OpExtract:
		fmt.Fprintf(&sb, "((_ extract %d %d) %s)", t.Val>>8, t.Val&0xff, ref(t.Args[0]))
	case OpZExt:
		fmt.Fprintf(&sb, "((_ zero_extend %d) %s)", t.W-t.Args[0].W, ref(t.Args[0]))
	case OpSExt:
		fmt.Fprintf(&sb, "((_ sign_extend %d) %s)", t.W-t.Args[0].W, ref(t.Args[0]))
	case OpB2BV:
		fmt.Fprintf(&sb, "(ite %s #b1 #b0)", ref(t.Args[0]))
	case OpFEq, OpFLt, OpFLe:
		n := map[Op]string{OpFEq: "fp.eq", OpFLt: "fp.lt", OpFLe: "fp.leq"}[t.Op]
		fs := fpSort(t.Args[0].W)
		fmt.Fprintf(&sb, "(%s (%s %s) (%s %s))", n, fs, ref(t.Args[0]), fs, ref(t.Args[1]))
	case OpFIsNaN:
		fmt.Fprintf(&sb, "(fp.isNaN (%s %s))", fpSort(t.Args[0].W), ref(t.Args[0]))
	default:
		sb.WriteByte('(')
		sb.WriteString(opNames[t.Op])
		for _, a := range t.Args {
			sb.WriteByte(' ')
			sb.WriteString(ref(a))
		}
		sb.WriteByte(')')
	}
	return sb.String()
}

// emitDefs writes define-fun lines for every non-leaf term in the cone of
// roots that is not yet marked with epoch.
func (s *Store) emitDefs(sb *strings.Builder, epoch uint64, roots ...*Term) {
	var visit func(t *Term)
	visit = func(t *Term) {
		if t.Op == OpConst || t.Op == OpVar || t.mark == epoch {
			return
		}
		t.mark = epoch
		for _, a := range t.Args {
			visit(a)
		}
		sb.WriteString("(define-fun ")
		sb.WriteString(ref(t))
		sb.WriteString(" () ")
		sb.WriteString(sortName(t.W))
		sb.WriteByte(' ')
		sb.WriteString(body(t))
		sb.WriteString(")\n")
	}
	for _, r := range roots {
		visit(r)
	}
}

// String renders a term for debugging (tree form, may be large).
func (t *Term) String() string {
	switch t.Op {
	case OpConst:
		return constText(t.W, t.Val)
	case OpVar:
		return t.Name
	}
	var sb strings.Builder
	sb.WriteByte('(')
	if int(t.Op) < len(opNames) && opNames[t.Op] != "" {
		sb.WriteString(opNames[t.Op])
	} else {
		fmt.Fprintf(&sb, "op%d:%d", t.Op, t.Val)
	}
	for _, a := range t.Args {
		sb.WriteByte(' ')
		sb.WriteString(a.String())
	}
	sb.WriteByte(')')
	return sb.String()
}

// Rebuild reconstructs a term of the same operator over new arguments,
// re-running the simplifier.
func (s *Store) Rebuild(t *Term, a []*Term) *Term {
	switch t.Op {
	case OpNot:
		return s.Not(a[0])
	case OpAnd:
		return s.And(a[0], a[1])
	case OpOr:
		return s.Or(a[0], a[1])
	case OpIte:
		return s.Ite(a[0], a[1], a[2])
	case OpEq:
		return s.Eq(a[0], a[1])
	case OpAdd, OpSub, OpMul, OpUDiv, OpURem, OpSDiv, OpSRem, OpBAnd, OpBOr, OpBXor, OpShl, OpLShr, OpAShr:
		return s.Bin(t.Op, a[0], a[1])
	case OpBNot:
		return s.BNot(a[0])
	case OpNeg:
		return s.Neg(a[0])
	case OpULt, OpULe, OpSLt, OpSLe:
		return s.Cmp(t.Op, a[0], a[1])
	case OpConcat:
		return s.Concat(a[0], a[1])
	case OpExtract:
		return s.Extract(a[0], int(t.Val>>8), int(t.Val&0xff))
	case OpZExt:
		return s.ZExt(a[0], t.W)
	case OpSExt:
		return s.SExt(a[0], t.W)
	case OpFEq, OpFLt, OpFLe:
		return s.FCmp(t.Op, a[0], a[1])
	case OpFIsNaN:
		return s.FIsNaN(a[0])
	case OpB2BV:
		if a[0].IsConst() {
			return s.Const(1, a[0].Val)
		}
		return s.intern(OpB2BV, 1, 0, "", a[0])
	}
	panic("Rebuild: unhandled op")
}

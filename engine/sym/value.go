package sym

import (
	"fmt"
	"go/types"
	"strings"

	"golang.org/x/tools/go/ssa"
)

// Value is an interpreter value:
//
//	*Term    bool / integer / float bits / uintptr
//	Str      string (concrete length, byte terms)
//	Struct   struct (by value; cells hold it and are updated in place)
//	Array    array (same)
//	Slice    slice
//	Ptr      pointer
//	*MapObj  map (nil *MapObj = nil map)
//	Iface    interface value
//	*Closure function value (nil = nil func)
//	Tuple    multiple results
//	*ssa.Builtin
//	*Iter    range iterator
type Value interface{}

// Str is a string value: immutable list of byte terms.
type Str struct {
	B []*Term
	// SymLen, if non-nil, is the symbolic length of a string view made by
	// unsafe.String over a symbolic-length slice; B holds the tracked bytes.
	SymLen *Term
}

// Struct and Array are aggregates.
type Struct []Value
type Array []Value

// Slice is a slice value. Base == nil means the nil slice.
type Slice struct {
	Base          []Value
	Off, Len, Cap int
	// SymLen, if non-nil, is the symbolic length of the slice. Len is then
	// the number of tracked cells Base[Off:Off+Len] (the real length may be
	// smaller or larger; an access must be both < SymLen and < Len).
	// SymCap, if non-nil, is the symbolic capacity (make with a symbolic
	// size); otherwise Cap is the concrete capacity.
	SymLen *Term
	SymCap *Term
}

// Ptr is a pointer. Cell == nil is the nil pointer.
type Ptr struct {
	Cell *Value
	Base []Value // backing array when the pointer addresses an element
	Idx  int
	// SymIdx, if non-nil, makes this a pointer to Base[Idx+SymIdx] for a
	// symbolic in-range index over N scalar elements (Cell is then a dummy
	// non-nil cell). Loads become ite-chains, stores concretise.
	SymIdx *Term
	N      int
}

// Iface is an interface value. T == nil is the nil interface.
type Iface struct {
	T types.Type
	V Value
}

// Closure is a function value.
type Closure struct {
	Fn  *ssa.Function
	Env []Value
	// Native, if set, is an engine-implemented function.
	Native func(ip *Interp, args []Value) Value
	Name   string
}

// Tuple is a multi-value.
type Tuple []Value

// MapObj is a map: insertion-ordered association list.
type MapObj struct {
	Keys []Value
	Vals []Value
	KT   types.Type
}

// Iter is a range iterator over a map or string.
type Iter struct {
	m     *MapObj
	order []int
	pos   int
	str   *Str
	spos  int
}

func (ip *Interp) zero(t types.Type) Value {
	switch t := t.Underlying().(type) {
	case *types.Basic:
		switch {
		case t.Kind() == types.String || t.Kind() == types.UntypedString:
			return Str{}
		case t.Kind() == types.UnsafePointer:
			return Ptr{}
		case t.Kind() == types.UntypedNil:
			return nil
		case t.Info()&types.IsBoolean != 0:
			return ip.st.F
		case t.Info()&types.IsComplex != 0:
			ip.oom("complex numbers")
		}
		return ip.st.Const(ip.width(t), 0)
	case *types.Struct:
		s := make(Struct, t.NumFields())
		for i := range s {
			s[i] = ip.zero(t.Field(i).Type())
		}
		return s
	case *types.Array:
		n := int(t.Len())
		a := make(Array, n)
		if n > 0 {
			z := ip.zero(t.Elem())
			for i := range a {
				if i == 0 {
					a[i] = z
				} else {
					a[i] = copyVal(z)
				}
			}
		}
		return a
	case *types.Slice:
		return Slice{}
	case *types.Pointer:
		return Ptr{}
	case *types.Map:
		return (*MapObj)(nil)
	case *types.Interface:
		return Iface{}
	case *types.Signature:
		return (*Closure)(nil)
	case *types.Chan:
		return nil
	case *types.Tuple:
		if t.Len() == 0 {
			return nil
		}
		tu := make(Tuple, t.Len())
		for i := range tu {
			tu[i] = ip.zero(t.At(i).Type())
		}
		return tu
	}
	panic(fmt.Sprintf("zero: unhandled type %v", t))
}

// width returns the bit width of a basic scalar type (0 for bool).
func (ip *Interp) width(t types.Type) int {
	b, ok := t.Underlying().(*types.Basic)
	if !ok {
		panic(fmt.Sprintf("width of non-basic %v", t))
	}
	switch b.Kind() {
	case types.Bool, types.UntypedBool:
		return 0
	case types.Int8, types.Uint8:
		return 8
	case types.Int16, types.Uint16:
		return 16
	case types.Int32, types.Uint32, types.Float32, types.UntypedRune:
		return 32
	case types.Int, types.Uint, types.Int64, types.Uint64, types.Uintptr, types.Float64, types.UntypedInt, types.UntypedFloat:
		return 64
	}
	panic(fmt.Sprintf("width: unhandled %v", t))
}

func isSigned(t types.Type) bool {
	b, ok := t.Underlying().(*types.Basic)
	return ok && b.Info()&types.IsInteger != 0 && b.Info()&types.IsUnsigned == 0
}

func isFloat(t types.Type) bool {
	b, ok := t.Underlying().(*types.Basic)
	return ok && b.Info()&types.IsFloat != 0
}

func isInteger(t types.Type) bool {
	b, ok := t.Underlying().(*types.Basic)
	return ok && b.Info()&types.IsInteger != 0
}

func isString(t types.Type) bool {
	b, ok := t.Underlying().(*types.Basic)
	return ok && b.Info()&types.IsString != 0
}

func isBool(t types.Type) bool {
	b, ok := t.Underlying().(*types.Basic)
	return ok && b.Info()&types.IsBoolean != 0
}

// copyVal deep-copies aggregates (structs and arrays) so that a loaded value
// does not alias its cell.
func copyVal(v Value) Value {
	switch v := v.(type) {
	case Struct:
		c := make(Struct, len(v))
		for i, x := range v {
			c[i] = copyVal(x)
		}
		return c
	case Array:
		c := make(Array, len(v))
		for i, x := range v {
			c[i] = copyVal(x)
		}
		return c
	case Tuple:
		// tuples are immutable
		return v
	}
	return v
}

// concreteString returns the Go string if every byte is constant.
func (s Str) concrete() (string, bool) {
	b := make([]byte, len(s.B))
	for i, t := range s.B {
		if !t.IsConst() {
			return "", false
		}
		b[i] = byte(t.Val)
	}
	return string(b), true
}

func (ip *Interp) mkStr(s string) Str {
	b := make([]*Term, len(s))
	for i := 0; i < len(s); i++ {
		b[i] = ip.st.Const(8, uint64(s[i]))
	}
	return Str{B: b}
}

// describe renders a value for diagnostics.
func describe(v Value) string {
	switch v := v.(type) {
	case nil:
		return "nil"
	case *Term:
		return v.String()
	case Str:
		if s, ok := v.concrete(); ok {
			return fmt.Sprintf("%q", s)
		}
		return fmt.Sprintf("str[%d]", len(v.B))
	case Struct:
		var parts []string
		for _, f := range v {
			parts = append(parts, describe(f))
		}
		return "{" + strings.Join(parts, ",") + "}"
	case Array:
		return fmt.Sprintf("array[%d]", len(v))
	case Slice:
		return fmt.Sprintf("slice[%d:%d]", v.Len, v.Cap)
	case Ptr:
		if v.Cell == nil {
			return "nilptr"
		}
		return fmt.Sprintf("ptr(%p)", v.Cell)
	case *MapObj:
		if v == nil {
			return "nilmap"
		}
		return fmt.Sprintf("map[%d]", len(v.Keys))
	case Iface:
		if v.T == nil {
			return "nil-iface"
		}
		return fmt.Sprintf("iface(%v:%s)", v.T, describe(v.V))
	case *Closure:
		if v == nil {
			return "nilfunc"
		}
		if v.Fn != nil {
			return "func " + v.Fn.String()
		}
		return "native " + v.Name
	case Tuple:
		var parts []string
		for _, f := range v {
			parts = append(parts, describe(f))
		}
		return "(" + strings.Join(parts, ",") + ")"
	}
	return fmt.Sprintf("%T", v)
}

package sym

import (
	"fmt"
	"strconv"

	"golang.org/x/tools/go/ssa"
)

func (ip *Interp) draw(w int, kind string) *Term {
	p := ip.path
	if p == nil {
		ip.oom("draw outside a path")
	}
	name := "d" + strconv.Itoa(len(p.Draws)) + "w" + strconv.Itoa(w)
	v := ip.st.Var(name, w)
	p.Draws = append(p.Draws, Draw{Term: v, W: w, Kind: kind})
	return v
}

func (ip *Interp) strArg(v Value) string {
	s, ok := ip.concStr(v.(Str)).concrete()
	if !ok {
		ip.oom("symbolic string passed to harness API")
	}
	return s
}

func (ip *Interp) registerHarnessAPI() {
	h := func(name string, f func(ip *Interp, fr *frame, args []Value) Value) {
		ip.intrinsics["harness."+name] = f
	}
	h("verifParam", func(ip *Interp, fr *frame, args []Value) Value {
		name := ip.strArg(args[0])
		v := ip.path.Job.Params[name] // missing parameters read as 0, as natively
		return ip.st.Const(64, uint64(v))
	})
	h("verifByte", func(ip *Interp, fr *frame, args []Value) Value { return ip.draw(8, "byte") })
	h("verifI8", func(ip *Interp, fr *frame, args []Value) Value { return ip.draw(8, "i8") })
	h("verifI16", func(ip *Interp, fr *frame, args []Value) Value { return ip.draw(16, "i16") })
	h("verifI32", func(ip *Interp, fr *frame, args []Value) Value { return ip.draw(32, "i32") })
	h("verifI64", func(ip *Interp, fr *frame, args []Value) Value { return ip.draw(64, "i64") })
	h("verifU64", func(ip *Interp, fr *frame, args []Value) Value { return ip.draw(64, "u64") })
	h("verifInt", func(ip *Interp, fr *frame, args []Value) Value { return ip.draw(64, "int") })
	h("verifF64", func(ip *Interp, fr *frame, args []Value) Value { return ip.draw(64, "f64") })
	h("verifBool", func(ip *Interp, fr *frame, args []Value) Value {
		b := ip.draw(8, "bool")
		ip.assume(ip.st.Cmp(OpULe, b, ip.st.Const(8, 1)))
		return ip.st.Eq(b, ip.st.Const(8, 1))
	})
	h("verifChoice", func(ip *Interp, fr *frame, args []Value) Value {
		n := ip.concInt(args[0].(*Term), "verifChoice n")
		k := ip.choose(n, "verifChoice")
		ip.path.Draws = append(ip.path.Draws, Draw{Val: uint64(k), W: 64, Kind: "choice"})
		return ip.st.Const(64, uint64(k))
	})
	h("verifBytes", func(ip *Interp, fr *frame, args []Value) Value {
		n := ip.concInt(args[0].(*Term), "verifBytes n")
		base := make([]Value, n)
		for i := range base {
			base[i] = ip.draw(8, "byte")
		}
		return Slice{Base: base, Len: n, Cap: n}
	})
	h("verifString", func(ip *Interp, fr *frame, args []Value) Value {
		n := ip.concInt(args[0].(*Term), "verifString n")
		b := make([]*Term, n)
		for i := range b {
			b[i] = ip.draw(8, "byte")
		}
		return Str{B: b}
	})
	h("verifAssume", func(ip *Interp, fr *frame, args []Value) Value {
		ip.assume(args[0].(*Term))
		return nil
	})
	h("verifAssert", func(ip *Interp, fr *frame, args []Value) Value {
		ip.assertCondAt(args[0].(*Term), ip.strArg(args[1]), fr)
		return nil
	})
	h("verifReached", func(ip *Interp, fr *frame, args []Value) Value {
		ip.path.Reached[ip.strArg(args[0])] = true
		return nil
	})
	h("verifConcrete", func(ip *Interp, fr *frame, args []Value) Value {
		t := args[0].(*Term)
		v := ip.concretize(t, "verifConcrete")
		return ip.st.Const(t.W, v)
	})
	h("verifAllocBegin", func(ip *Interp, fr *frame, args []Value) Value {
		ip.path.allocOn = true
		return nil
	})
	h("verifAllocEnd", func(ip *Interp, fr *frame, args []Value) Value {
		ip.path.allocOn = false
		return nil
	})
	h("verifAllocEndK", func(ip *Interp, fr *frame, args []Value) Value {
		ip.path.allocOn = false
		return nil
	})
	h("verifB2I", func(ip *Interp, fr *frame, args []Value) Value {
		return ip.st.B2BV(args[0].(*Term), 64)
	})
	h("verifIsSymbolic", func(ip *Interp, fr *frame, args []Value) Value {
		return ip.st.T
	})
	h("verifIsNaN", func(ip *Interp, fr *frame, args []Value) Value {
		return ip.st.FIsNaN(args[0].(*Term))
	})
	h("verifObserveInt", func(ip *Interp, fr *frame, args []Value) Value {
		ip.path.Observes = append(ip.path.Observes, Obs{Label: ip.strArg(args[0]), Kind: "int", Terms: []*Term{args[1].(*Term)}})
		return nil
	})
	h("verifObserveBool", func(ip *Interp, fr *frame, args []Value) Value {
		ip.path.Observes = append(ip.path.Observes, Obs{Label: ip.strArg(args[0]), Kind: "bool", Terms: []*Term{args[1].(*Term)}})
		return nil
	})
	h("verifObserveBytes", func(ip *Interp, fr *frame, args []Value) Value {
		s := ip.concSlice(args[1].(Slice), "observe")
		ts := make([]*Term, s.Len)
		for i := range ts {
			ts[i] = s.Base[s.Off+i].(*Term)
		}
		ip.path.Observes = append(ip.path.Observes, Obs{Label: ip.strArg(args[0]), Kind: "bytes", Terms: ts})
		return nil
	})
	h("verifObserveStr", func(ip *Interp, fr *frame, args []Value) Value {
		s := ip.concStr(args[1].(Str))
		ip.path.Observes = append(ip.path.Observes, Obs{Label: ip.strArg(args[0]), Kind: "str", Terms: append([]*Term(nil), s.B...)})
		return nil
	})
	// verifSteps returns the number of interpreter steps so far (0 natively).
	h("verifSteps", func(ip *Interp, fr *frame, args []Value) Value {
		return ip.st.Const(64, 0)
	})
}

// installAllocMonitor asserts that no single allocation request and no path
// total exceeds the configured limits.
func (ip *Interp) installAllocMonitor(p *Path, cfg *HarnessConfig) {
	perSite, total := cfg.AllocLimit(p.Job.Params)
	st := ip.st
	p.AllocTotal = st.Const(64, 0)
	p.AllocHook = func(ip *Interp, site ssa.Instruction, bytes *Term) {
		if !p.allocOn {
			return
		}
		if bytes.IsConst() && bytes.Val <= perSite {
			// concrete small allocation: accumulate only
			p.AllocTotal = st.Bin(OpAdd, p.AllocTotal, bytes)
			if p.AllocTotal.IsConst() && p.AllocTotal.Val > total {
				ip.allocViolation(site, "alloc-total", p.Model)
			}
			return
		}
		ok := st.Cmp(OpULe, bytes, st.Const(64, perSite))
		if ip.forced() {
			ip.addPC(ok)
			return
		}
		// prefer a witness whose request is small enough to replay natively
		res, m := ip.query(st.AndAll(st.Not(ok), st.Cmp(OpULe, bytes, st.Const(64, 256<<20)), st.Cmp(OpULe, st.Const(64, 64<<20), bytes)))
		if res != Sat {
			res, m = ip.query(st.AndAll(st.Not(ok), st.Cmp(OpULe, bytes, st.Const(64, 256<<20)), st.Cmp(OpULe, st.Const(64, 8<<20), bytes)))
		}
		if res != Sat {
			res, m = ip.query(st.And(st.Not(ok), st.Cmp(OpULe, bytes, st.Const(64, 256<<20))))
		}
		if res != Sat {
			res, m = ip.query(st.Not(ok))
		}
		switch res {
		case Sat:
			ip.allocViolationAt(site, "alloc", m, ok)
		case Unknown:
			ip.run.noteUnknown("alloc query: " + ip.sv.LastError)
		}
		ip.addPC(ok)
		p.AllocTotal = st.Bin(OpAdd, p.AllocTotal, bytes)
	}
}

func (ip *Interp) allocViolation(site ssa.Instruction, label string, m Model) {
	ip.allocViolationAt(site, label, m, nil)
}

func (ip *Interp) allocViolationAt(site ssa.Instruction, label string, m Model, ok *Term) {
	p := ip.path
	v := Violation{Harness: p.Job.Harness, Params: p.Job.Params, Label: label, Site: siteOf(site) + "@" + ip.posOf(site),
		Draws: ip.drawsUnder(m), Obs: ip.obsUnder(m), Msg: fmt.Sprintf("allocation request exceeds limit at %s", ip.posOf(site))}
	known := ip.run.recordViolation(&v)
	if !known {
		panic(pathEnd{Kind: "assert", Msg: label})
	}
	if ok != nil {
		ip.assume(ok)
	}
}

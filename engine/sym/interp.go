package sym

import (
	"fmt"
	"go/constant"
	"go/token"
	"go/types"
	"math"
	"strings"

	"golang.org/x/tools/go/ssa"
)

// pathEnd is thrown (as a Go panic) to end the current path.
type pathEnd struct {
	Kind string // "infeasible", "oom", "budget", "assert", "stop"
	Msg  string
}

// goPanic is a panic of the interpreted program.
type goPanic struct {
	V    Value
	Kind string // "explicit", "index", "nil", "typeassert", "divzero", "slice", "makeslice", "nilmap", ...
	Site string
}

type deferred struct {
	fn   Value
	args []Value
	tail *deferred
}

type frame struct {
	ip        *Interp
	caller    *frame
	fn        *ssa.Function
	info      *fnInfo
	block     *ssa.BasicBlock
	prevBlock *ssa.BasicBlock
	env       []Value
	defers    *deferred
	result    Value
	panicking bool
	panicVal  interface{}
}

type fnInfo struct {
	idx map[ssa.Value]int
	n   int
}

// Interp is one interpreter instance (one worker).
type Interp struct {
	prog    *ssa.Program
	st      *Store
	sizes   types.Sizes
	globals map[*ssa.Global]*Value
	fnInfos map[*ssa.Function]*fnInfo
	consts  map[*ssa.Const]Value
	implCache map[[2]types.Type]bool

	initDone     map[*ssa.Package]bool
	initSkipped  map[*ssa.Package]bool
	inInit       bool
	InitAllow    func(pkgPath string) bool
	intrinsics   map[string]func(ip *Interp, fr *frame, args []Value) Value
	pools        map[*Value][]Value
	runtimeErrT  types.Type

	path     *Path
	undo     []undoRec
	logging  bool
	mapUndo  []func()
	funcsHit map[*ssa.Function]bool
	stubsHit map[string]bool
	depth    int

	initPoison []string
	qcache     map[string]qentry
	qhits      int
	cur        ssa.Instruction
	curFn      *ssa.Function // innermost function entered (single word: safe to read racily for diagnostics)

	run *Run // shared run state (solver, queue hooks)
	sv  *Solver
}

type undoRec struct {
	cell *Value
	old  Value
}

func (ip *Interp) oom(format string, a ...interface{}) {
	panic(pathEnd{Kind: "oom", Msg: fmt.Sprintf(format, a...)})
}

func (ip *Interp) infoOf(fn *ssa.Function) *fnInfo {
	if fi, ok := ip.fnInfos[fn]; ok {
		return fi
	}
	fi := &fnInfo{idx: map[ssa.Value]int{}}
	add := func(v ssa.Value) {
		fi.idx[v] = fi.n
		fi.n++
	}
	for _, p := range fn.Params {
		add(p)
	}
	for _, fv := range fn.FreeVars {
		add(fv)
	}
	for _, b := range fn.Blocks {
		for _, in := range b.Instrs {
			if v, ok := in.(ssa.Value); ok {
				add(v)
			}
		}
	}
	ip.fnInfos[fn] = fi
	return fi
}

func (ip *Interp) store(cell *Value, v Value) {
	if ip.logging {
		ip.undo = append(ip.undo, undoRec{cell, *cell})
	}
	*cell = v
}

// storeT stores v of type t into cell, copying aggregates in place.
func (ip *Interp) storeT(cell *Value, v Value) {
	switch v := v.(type) {
	case Struct:
		if dst, ok := (*cell).(Struct); ok && len(dst) == len(v) {
			for i := range v {
				ip.storeT(&dst[i], v[i])
			}
			return
		}
		ip.store(cell, copyVal(v))
	case Array:
		if dst, ok := (*cell).(Array); ok && len(dst) == len(v) {
			for i := range v {
				ip.storeT(&dst[i], v[i])
			}
			return
		}
		ip.store(cell, copyVal(v))
	default:
		ip.store(cell, v)
	}
}

func (ip *Interp) load(p Ptr) Value {
	if p.SymIdx != nil {
		return ip.selectByIndex(p.SymIdx, p.N, func(i int) *Term { return p.Base[p.Idx+i].(*Term) })
	}
	return copyVal(*p.Cell)
}

// concPtr resolves a symbolic-index pointer to a concrete cell by forking.
func (ip *Interp) concPtr(p Ptr) Ptr {
	if p.SymIdx == nil {
		return p
	}
	i := ip.concInt(p.SymIdx, "element pointer index")
	return Ptr{Cell: &p.Base[p.Idx+i], Base: p.Base, Idx: p.Idx + i}
}

func (ip *Interp) constValue(c *ssa.Const) Value {
	if v, ok := ip.consts[c]; ok {
		return v
	}
	v := ip.constValue0(c)
	ip.consts[c] = v
	return v
}

func (ip *Interp) constValue0(c *ssa.Const) Value {
	if c.Value == nil {
		return ip.zero(c.Type())
	}
	t, ok := c.Type().Underlying().(*types.Basic)
	if !ok {
		// typeparam-free code: constants of named basic types reach here via Underlying.
		panic(fmt.Sprintf("const of type %v", c.Type()))
	}
	switch {
	case t.Info()&types.IsBoolean != 0:
		return ip.st.Bool(constant.BoolVal(c.Value))
	case t.Info()&types.IsString != 0:
		if c.Value.Kind() == constant.String {
			return ip.mkStr(constant.StringVal(c.Value))
		}
		// string(int const)
		i, _ := constant.Int64Val(c.Value)
		return ip.mkStr(string(rune(i)))
	case t.Info()&types.IsInteger != 0:
		w := ip.width(t)
		if t.Info()&types.IsUnsigned != 0 {
			u, _ := constant.Uint64Val(constant.ToInt(c.Value))
			return ip.st.Const(w, u)
		}
		i, exact := constant.Int64Val(constant.ToInt(c.Value))
		if !exact {
			u, _ := constant.Uint64Val(constant.ToInt(c.Value))
			return ip.st.Const(w, u)
		}
		return ip.st.Const(w, uint64(i))
	case t.Info()&types.IsFloat != 0:
		f, _ := constant.Float64Val(c.Value)
		if t.Kind() == types.Float32 {
			return ip.st.Const(32, uint64(math.Float32bits(float32(f))))
		}
		return ip.st.Const(64, math.Float64bits(f))
	case t.Kind() == types.UnsafePointer:
		return Ptr{}
	}
	ip.oom("constant of type %v", c.Type())
	return nil
}

func (fr *frame) get(v ssa.Value) Value {
	switch v := v.(type) {
	case *ssa.Const:
		return fr.ip.constValue(v)
	case *ssa.Global:
		return fr.ip.globalPtr(v)
	case *ssa.Function:
		if v == nil {
			return (*Closure)(nil)
		}
		return &Closure{Fn: v}
	case *ssa.Builtin:
		return v
	}
	i, ok := fr.info.idx[v]
	if !ok {
		panic(fmt.Sprintf("get: no slot for %s (%T) in %s", v.Name(), v, fr.fn))
	}
	return fr.env[i]
}

func (fr *frame) set(v ssa.Value, x Value) {
	fr.env[fr.info.idx[v]] = x
}

func (ip *Interp) globalPtr(g *ssa.Global) Ptr {
	if c, ok := ip.globals[g]; ok {
		return Ptr{Cell: c}
	}
	if g.Pkg != nil && !ip.initDone[g.Pkg] {
		if ip.initSkipped[g.Pkg] || !ip.inInit {
			if !ip.globalAllowed(g) {
				ip.oom("global %s of package whose init is not modelled", g)
			}
		}
	}
	c := new(Value)
	*c = ip.zero(deref(g.Type()))
	ip.globals[g] = c
	return Ptr{Cell: c}
}

func (ip *Interp) globalAllowed(g *ssa.Global) bool {
	// Globals whose zero value is the post-init state are fine; we cannot
	// know in general, so allow only guard variables.
	return strings.HasPrefix(g.Name(), "init$guard")
}

func deref(t types.Type) types.Type {
	if p, ok := t.Underlying().(*types.Pointer); ok {
		return p.Elem()
	}
	panic(fmt.Sprintf("deref of non-pointer %v", t))
}

// ---- calls ----

func (ip *Interp) callValue(fr *frame, fn Value, args []Value, site ssa.Instruction) Value {
	switch fn := fn.(type) {
	case *Closure:
		if fn == nil {
			ip.throw("nil", "call of nil function", site)
		}
		if fn.Native != nil {
			return fn.Native(ip, args)
		}
		return ip.callSSA(fr, fn.Fn, args, fn.Env)
	case *ssa.Builtin:
		return ip.callBuiltin(fr, fn, args, site)
	}
	panic(fmt.Sprintf("cannot call %T", fn))
}

func (ip *Interp) prepareCall(fr *frame, call *ssa.CallCommon, site ssa.Instruction) (Value, []Value) {
	var fn Value
	var args []Value
	if call.Method == nil {
		switch v := call.Value.(type) {
		case *ssa.Function:
			fn = &Closure{Fn: v}
		case *ssa.Builtin:
			fn = v
		default:
			fn = fr.get(call.Value)
		}
	} else {
		recv := fr.get(call.Value).(Iface)
		if recv.T == nil {
			ip.throw("nil", "method "+call.Method.Name()+" invoked on nil interface", site)
		}
		f := ip.prog.LookupMethod(recv.T, call.Method.Pkg(), call.Method.Name())
		if f == nil {
			panic(fmt.Sprintf("method set for dynamic type %v does not contain %s", recv.T, call.Method))
		}
		fn = &Closure{Fn: f}
		args = append(args, recv.V)
	}
	for _, a := range call.Args {
		args = append(args, fr.get(a))
	}
	return fn, args
}

const maxDepth = 3000

func (ip *Interp) callSSA(caller *frame, fn *ssa.Function, args []Value, env []Value) Value {
	name := fn.String()
	if strings.HasPrefix(fn.Name(), "verif") || strings.HasPrefix(fn.Name(), "Verif") {
		if h, ok := ip.intrinsics["harness."+fn.Name()]; ok {
			return h(ip, caller, args)
		}
	}
	if h, ok := ip.intrinsics[name]; ok {
		ip.stubsHit[name] = true
		return h(ip, caller, args)
	}
	if fn.Origin() != nil {
		if h, ok := ip.intrinsics[fn.Origin().String()]; ok {
			ip.stubsHit[fn.Origin().String()] = true
			return h(ip, caller, args)
		}
	}
	if fn.Blocks == nil {
		ip.oom("no body for function %s", name)
	}
	if fn.Name() == "init" && fn.Pkg != nil && fn.Parent() == nil && fn.Signature.Recv() == nil && fn.Synthetic != "" {
		// package initializer
		if !ip.initAllowed(fn.Pkg) {
			ip.initSkipped[fn.Pkg] = true
			return nil
		}
		defer func() { ip.initDone[fn.Pkg] = true }()
	}
	ip.depth++
	if ip.depth > maxDepth {
		ip.depth--
		panic(pathEnd{Kind: "budget", Msg: "call depth exceeded in " + name})
	}
	defer func() { ip.depth-- }()
	if !ip.inInit {
		ip.funcsHit[fn] = true
	}
	fi := ip.infoOf(fn)
	ip.curFn = fn
	fr := &frame{ip: ip, caller: caller, fn: fn, info: fi}
	fr.env = make([]Value, fi.n)
	for i, p := range fn.Params {
		fr.env[fi.idx[p]] = args[i]
	}
	for i, fv := range fn.FreeVars {
		fr.env[fi.idx[fv]] = env[i]
	}
	for _, l := range fn.Locals {
		c := new(Value)
		*c = ip.zero(deref(l.Type()))
		fr.env[fi.idx[l]] = Ptr{Cell: c}
	}
	fr.block = fn.Blocks[0]
	for fr.block != nil {
		ip.runFrame(fr)
	}
	return fr.result
}

func (ip *Interp) initAllowed(p *ssa.Package) bool {
	if ip.InitAllow == nil {
		return true
	}
	return ip.InitAllow(p.Pkg.Path())
}

func (ip *Interp) runFrame(fr *frame) {
	defer func() {
		if fr.block == nil {
			return // normal return
		}
		r := recover()
		if _, ok := r.(goPanic); !ok {
			// engine-level event (pathEnd or bug): propagate
			panic(r)
		}
		fr.panicking = true
		fr.panicVal = r
		ip.runDefers(fr)
		fr.block = fr.fn.Recover
		if fr.block == nil {
			// recovered, function without named results: return zero
			fr.result = ip.zero(fr.fn.Signature.Results())
			if tu, ok := fr.result.(Tuple); ok && len(tu) == 1 {
				fr.result = tu[0]
			}
		}
	}()
	for {
		blk := fr.block
		// phis
		i := 0
		if len(blk.Instrs) > 0 {
			if _, ok := blk.Instrs[0].(*ssa.Phi); ok {
				predIndex := -1
				for k, p := range blk.Preds {
					if p == fr.prevBlock {
						predIndex = k
						break
					}
				}
				var temps []Value
				for ; i < len(blk.Instrs); i++ {
					phi, ok := blk.Instrs[i].(*ssa.Phi)
					if !ok {
						break
					}
					temps = append(temps, fr.get(phi.Edges[predIndex]))
				}
				for k := 0; k < i; k++ {
					fr.set(blk.Instrs[k].(*ssa.Phi), temps[k])
				}
			}
		}
		jumped := false
		initFrame := ip.inInit && fr.fn.Synthetic == "package initializer"
		for ; i < len(blk.Instrs); i++ {
			var k continuation
			if initFrame {
				k = ip.visitInitInstr(fr, blk.Instrs[i])
			} else {
				k = ip.visitInstr(fr, blk.Instrs[i])
			}
			switch k {
			case kReturn:
				return
			case kJump:
				jumped = true
			}
			if jumped {
				break
			}
		}
		if !jumped {
			panic("block fell through: " + fr.fn.String())
		}
	}
}

func (ip *Interp) runDefers(fr *frame) {
	for d := fr.defers; d != nil; d = d.tail {
		ip.runDefer(fr, d)
	}
	fr.defers = nil
	if fr.panicking {
		panic(fr.panicVal)
	}
}

func (ip *Interp) runDefer(fr *frame, d *deferred) {
	var ok bool
	defer func() {
		if !ok {
			r := recover()
			if gp, isGo := r.(goPanic); isGo {
				// deferred call panicked: new panic replaces old
				fr.panicking = true
				fr.panicVal = gp
				return
			}
			panic(r)
		}
	}()
	ip.callValue(fr, d.fn, d.args, nil)
	ok = true
}

type continuation int

const (
	kNext continuation = iota
	kReturn
	kJump
)

func siteOf(in ssa.Instruction) string {
	if in == nil {
		return "?"
	}
	fn := in.Parent()
	kind := fmt.Sprintf("%T", in)
	kind = strings.TrimPrefix(kind, "*ssa.")
	return fn.String() + ":" + kind
}

func (ip *Interp) posOf(in ssa.Instruction) string {
	if in == nil {
		return ""
	}
	p := in.Pos()
	if p == token.NoPos {
		return ""
	}
	pp := ip.prog.Fset.Position(p)
	return fmt.Sprintf("%s:%d", pp.Filename, pp.Line)
}

// throw raises a run-time panic of the interpreted program.
func (ip *Interp) throw(kind, msg string, site ssa.Instruction) {
	var v Value
	if ip.runtimeErrT != nil {
		v = Iface{T: ip.runtimeErrT, V: ip.mkStr(msg)}
	} else {
		v = Iface{T: types.Typ[types.String], V: ip.mkStr(msg)}
	}
	panic(goPanic{V: v, Kind: kind, Site: siteOf(site) + "@" + ip.posOf(site)})
}

// guard forks on a run-time check: if ok can be false the failing side
// raises the panic.
func (ip *Interp) guard(ok *Term, kind, msg string, site ssa.Instruction) {
	if ok.IsTrue() {
		return
	}
	if !ip.branch(ok) {
		ip.throw(kind, msg, site)
	}
}

func (ip *Interp) visitInstr(fr *frame, instr ssa.Instruction) continuation {
	p := ip.path
	if p != nil {
		p.Steps++
		if p.Steps > p.Budget {
			panic(pathEnd{Kind: "budget", Msg: fmt.Sprintf("step budget %d exhausted in %s", p.Budget, fr.fn)})
		}
	}
	st := ip.st
	ip.cur = instr
	switch instr := instr.(type) {
	case *ssa.DebugRef:
	case *ssa.UnOp:
		fr.set(instr, ip.unop(fr, instr, fr.get(instr.X)))
	case *ssa.BinOp:
		fr.set(instr, ip.binop(instr.Op, instr.X.Type(), fr.get(instr.X), fr.get(instr.Y), instr))
	case *ssa.Call:
		fn, args := ip.prepareCall(fr, &instr.Call, instr)
		if ip.inInit && fr.fn.Synthetic == "package initializer" {
			fr.set(instr, ip.callInit(fr, fn, args, instr))
		} else {
			fr.set(instr, ip.callValue(fr, fn, args, instr))
		}
	case *ssa.ChangeInterface:
		fr.set(instr, fr.get(instr.X))
	case *ssa.ChangeType:
		fr.set(instr, fr.get(instr.X))
	case *ssa.Convert:
		fr.set(instr, ip.conv(instr.Type(), instr.X.Type(), fr.get(instr.X), instr))
	case *ssa.MakeInterface:
		fr.set(instr, Iface{T: instr.X.Type(), V: fr.get(instr.X)})
	case *ssa.Extract:
		fr.set(instr, fr.get(instr.Tuple).(Tuple)[instr.Index])
	case *ssa.Slice:
		fr.set(instr, ip.sliceOp(fr, instr))
	case *ssa.Return:
		switch len(instr.Results) {
		case 0:
		case 1:
			fr.result = fr.get(instr.Results[0])
		default:
			res := make(Tuple, len(instr.Results))
			for i, r := range instr.Results {
				res[i] = fr.get(r)
			}
			fr.result = res
		}
		fr.block = nil
		return kReturn
	case *ssa.RunDefers:
		ip.runDefers(fr)
	case *ssa.Panic:
		panic(goPanic{V: fr.get(instr.X), Kind: "explicit", Site: siteOf(instr) + "@" + ip.posOf(instr)})
	case *ssa.Store:
		addr := fr.get(instr.Addr).(Ptr)
		if addr.Cell == nil {
			ip.throw("nil", "nil pointer dereference (store)", instr)
		}
		if addr.SymIdx != nil {
			addr = ip.concPtr(addr)
		}
		ip.storeT(addr.Cell, fr.get(instr.Val))
	case *ssa.If:
		c := fr.get(instr.Cond).(*Term)
		succ := 1
		if ip.branch(c) {
			succ = 0
		}
		fr.prevBlock, fr.block = fr.block, fr.block.Succs[succ]
		return kJump
	case *ssa.Jump:
		fr.prevBlock, fr.block = fr.block, fr.block.Succs[0]
		return kJump
	case *ssa.Defer:
		fn, args := ip.prepareCall(fr, &instr.Call, instr)
		if instr.DeferStack != nil {
			ip.oom("defer with explicit DeferStack")
		}
		fr.defers = &deferred{fn: fn, args: args, tail: fr.defers}
	case *ssa.Go:
		ip.oom("go statement in %s", fr.fn)
	case *ssa.MakeChan:
		ip.oom("make(chan) in %s", fr.fn)
	case *ssa.Send:
		ip.oom("channel send in %s", fr.fn)
	case *ssa.Select:
		ip.oom("select in %s", fr.fn)
	case *ssa.Alloc:
		t := deref(instr.Type())
		if instr.Heap {
			c := new(Value)
			*c = ip.zero(t)
			ip.noteAlloc(instr, st.Const(64, uint64(ip.sizes.Sizeof(t))))
			fr.set(instr, Ptr{Cell: c})
		} else {
			// local: re-zero
			c := fr.get(instr).(Ptr).Cell
			*c = ip.zero(t)
		}
	case *ssa.MakeSlice:
		fr.set(instr, ip.makeSlice(fr, instr))
	case *ssa.MakeMap:
		mt := instr.Type().Underlying().(*types.Map)
		if instr.Reserve != nil {
			r := fr.get(instr.Reserve).(*Term)
			esz := ip.sizes.Sizeof(mt.Key()) + ip.sizes.Sizeof(mt.Elem())
			ip.noteAlloc(instr, st.Bin(OpMul, st.SExt(r, 64), st.Const(64, uint64(esz))))
		}
		fr.set(instr, &MapObj{KT: mt.Key()})
	case *ssa.Range:
		fr.set(instr, ip.rangeIter(fr.get(instr.X), instr.X.Type()))
	case *ssa.Next:
		fr.set(instr, ip.iterNext(fr.get(instr.Iter).(*Iter), instr))
	case *ssa.FieldAddr:
		x := fr.get(instr.X).(Ptr)
		if x.Cell == nil {
			ip.throw("nil", "nil pointer dereference (field address)", instr)
		}
		s := (*x.Cell).(Struct)
		fr.set(instr, Ptr{Cell: &s[instr.Field]})
	case *ssa.Field:
		fr.set(instr, fr.get(instr.X).(Struct)[instr.Field])
	case *ssa.IndexAddr:
		fr.set(instr, ip.indexAddr(fr, instr))
	case *ssa.Index:
		fr.set(instr, ip.indexOp(fr, instr))
	case *ssa.Lookup:
		fr.set(instr, ip.lookup(fr, instr))
	case *ssa.MapUpdate:
		m := fr.get(instr.Map).(*MapObj)
		if m == nil {
			ip.throw("nilmap", "assignment to entry in nil map", instr)
		}
		ip.mapUpdate(m, fr.get(instr.Key), fr.get(instr.Value))
	case *ssa.TypeAssert:
		fr.set(instr, ip.typeAssert(instr, fr.get(instr.X).(Iface)))
	case *ssa.MakeClosure:
		var bindings []Value
		for _, b := range instr.Bindings {
			bindings = append(bindings, fr.get(b))
		}
		fr.set(instr, &Closure{Fn: instr.Fn.(*ssa.Function), Env: bindings})
	case *ssa.SliceToArrayPointer:
		ip.oom("slice to array pointer conversion")
	case *ssa.MultiConvert:
		ip.oom("multiconvert")
	case *ssa.Phi:
		panic("phi in body")
	default:
		panic(fmt.Sprintf("unexpected instruction %T", instr))
	}
	return kNext
}

func (ip *Interp) implements(t types.Type, it *types.Interface, itT types.Type) bool {
	k := [2]types.Type{t, itT}
	if b, ok := ip.implCache[k]; ok {
		return b
	}
	b := types.Implements(t, it)
	ip.implCache[k] = b
	return b
}

func (ip *Interp) typeAssert(instr *ssa.TypeAssert, x Iface) Value {
	var ok bool
	var v Value
	if it, isIface := instr.AssertedType.Underlying().(*types.Interface); isIface {
		if x.T != nil && ip.implements(x.T, it, instr.AssertedType) {
			ok = true
			v = x
		} else {
			v = Iface{}
		}
	} else {
		if x.T != nil && (x.T == instr.AssertedType || types.Identical(x.T, instr.AssertedType)) {
			ok = true
			v = x.V
		} else {
			v = ip.zero(instr.AssertedType)
		}
	}
	if instr.CommaOk {
		return Tuple{v, ip.st.Bool(ok)}
	}
	if !ok {
		ip.throw("typeassert", fmt.Sprintf("interface conversion: %v is not %v", x.T, instr.AssertedType), instr)
	}
	return v
}

func (ip *Interp) noteAlloc(site ssa.Instruction, bytes *Term) {
	if ip.path != nil && ip.path.AllocHook != nil && !ip.inInit {
		if site == nil {
			site = ip.cur
		}
		ip.path.AllocHook(ip, site, bytes)
	}
}

// Where describes the instruction being interpreted (for engine diagnostics).
func (ip *Interp) Where() string {
	if ip.cur == nil {
		return "?"
	}
	return fmt.Sprintf("%s in %s at %s", ip.cur, ip.cur.Parent(), ip.posOf(ip.cur))
}

// visitInitInstr interprets one instruction of a package initialiser,
// poisoning its result if it cannot be modelled.
func (ip *Interp) visitInitInstr(fr *frame, instr ssa.Instruction) (k continuation) {
	defer func() {
		if e := recover(); e != nil {
			msg := ""
			if pe, ok := e.(pathEnd); ok && pe.Kind == "oom" {
				msg = pe.Msg
			} else if _, ok := e.(interface{ RuntimeError() }); ok {
				msg = fmt.Sprintf("engine cannot interpret (%v)", e)
			} else {
				panic(e)
			}
			switch instr.(type) {
			case *ssa.If, *ssa.Jump, *ssa.Return, *ssa.Panic:
				panic(e)
			}
			ip.initPoison = append(ip.initPoison, fmt.Sprintf("%s: %s", fr.fn.Pkg.Pkg.Path(), msg))
			if v, ok := instr.(ssa.Value); ok {
				fr.set(v, poisonFor(v.Type(), msg))
			}
			k = kNext
		}
	}()
	return ip.visitInstr(fr, instr)
}

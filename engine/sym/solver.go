package sym

import (
	"bufio"
	"fmt"
	"io"
	"os"
	"os/exec"
	"regexp"
	"strconv"
	"strings"
	"time"
)

// Result of a solver query.
type Result int

const (
	Unsat Result = iota
	Sat
	Unknown
)

func (r Result) String() string { return [...]string{"unsat", "sat", "unknown"}[r] }

// SolverStats accumulates query counts and time.
type SolverStats struct {
	Queries  int
	Sat      int
	Unsat    int
	Unknown  int
	Errors   int
	Time     time.Duration
	Restarts int
}

// Solver drives one long-lived SMT solver process over a pipe.
type Solver struct {
	kind      string // "z3", "z3-new", "cvc5"
	timeoutMs int
	watchdog  bool
	cmd       *exec.Cmd
	in        io.WriteCloser
	out       *bufio.Reader
	store     *Store
	declared  map[string]bool
	epoch     uint64
	seq       int
	Stats     SolverStats
	LastError string
	nq        int
	busy      bool
}

// NewSolver starts a solver process. kind is "z3", "z3-new" or "cvc5".
func NewSolver(kind string, store *Store, timeoutMs int) (*Solver, error) {
	sv := &Solver{kind: kind, store: store, timeoutMs: timeoutMs}
	if err := sv.start(); err != nil {
		return nil, err
	}
	return sv, nil
}

func (sv *Solver) start() error {
	var cmd *exec.Cmd
	switch sv.kind {
	case "z3":
		cmd = exec.Command("/usr/bin/z3", "-in", "-smt2")
	case "z3-new":
		cmd = exec.Command("z3-new", "-in", "-smt2")
	case "cvc5":
		cmd = exec.Command("cvc5", "--incremental", "--lang=smt2", "--produce-models", fmt.Sprintf("--tlimit-per=%d", sv.timeoutMs))
	default:
		return fmt.Errorf("unknown solver %q", sv.kind)
	}
	in, err := cmd.StdinPipe()
	if err != nil {
		return err
	}
	out, err := cmd.StdoutPipe()
	if err != nil {
		return err
	}
	cmd.Stderr = cmd.Stdout
	if err := cmd.Start(); err != nil {
		return err
	}
	sv.cmd, sv.in, sv.out = cmd, in, bufio.NewReaderSize(out, 1<<16)
	sv.declared = map[string]bool{}
	sv.nq = 0
	var sb strings.Builder
	if sv.kind == "cvc5" {
		sb.WriteString("(set-logic ALL)\n")
	} else {
		sb.WriteString("(set-option :produce-models true)\n")
		fmt.Fprintf(&sb, "(set-option :timeout %d)\n", sv.timeoutMs)
	}
	_, err = io.WriteString(sv.in, sb.String())
	return err
}

// Close terminates the solver process.
func (sv *Solver) Close() {
	if sv.cmd != nil {
		sv.in.Close()
		sv.cmd.Process.Kill()
		sv.cmd.Wait()
		sv.cmd = nil
	}
}

func (sv *Solver) restart() {
	sv.Close()
	sv.Stats.Restarts++
	if err := sv.start(); err != nil {
		panic(fmt.Sprintf("solver restart: %v", err))
	}
}

var valueRe = regexp.MustCompile(`\(\s*([A-Za-z_][A-Za-z0-9_]*)\s+(#x[0-9a-fA-F]+|#b[01]+|true|false)\s*\)`)

func (sv *Solver) roundTrip(text string) ([]string, error) {
	sv.seq++
	marker := "DONE" + strconv.Itoa(sv.seq)
	// Watchdog: z3's :timeout is not honoured in every phase (a large query can
	// sit in preprocessing far beyond it). After 1.5x the timeout plus 10 s the
	// process is killed; the query then counts as unknown.
	sv.watchdog = false
	cmd := sv.cmd
	timer := time.AfterFunc(time.Duration(sv.timeoutMs)*3/2*time.Millisecond+10*time.Second, func() {
		sv.watchdog = true
		if cmd != nil && cmd.Process != nil {
			cmd.Process.Kill()
		}
	})
	defer timer.Stop()
	if _, err := io.WriteString(sv.in, text+"(echo \""+marker+"\")\n"); err != nil {
		return nil, err
	}
	var lines []string
	for {
		line, err := sv.out.ReadString('\n')
		if err != nil {
			return lines, fmt.Errorf("solver pipe: %v", err)
		}
		line = strings.TrimSpace(line)
		if line == marker || line == "\""+marker+"\"" {
			return lines, nil
		}
		if line != "" {
			lines = append(lines, line)
		}
	}
}

// Check decides the conjunction of asserts. On Sat the model holds a value
// for every variable occurring in asserts.
func (sv *Solver) Check(asserts []*Term) (Result, Model) {
	t0 := time.Now()
	sv.busy = true
	defer func() { sv.Stats.Time += time.Since(t0); sv.busy = false }()
	sv.Stats.Queries++
	sv.nq++
	if sv.nq > 20000 {
		sv.restart()
	}
	st := sv.store
	st.epoch++
	sv.epoch = st.epoch
	var sb strings.Builder
	// declarations (level 0)
	var vs []uint64
	for _, a := range asserts {
		vs = bitsOr(append([]uint64(nil), vs...), st.varsOf(a))
	}
	var coneVars []*Term
	for i, wd := range vs {
		for b := 0; b < 64; b++ {
			if wd&(1<<uint(b)) != 0 {
				v := st.Vars[i*64+b]
				coneVars = append(coneVars, v)
				if !sv.declared[v.Name] {
					sv.declared[v.Name] = true
					fmt.Fprintf(&sb, "(declare-const %s %s)\n", v.Name, sortName(v.W))
				}
			}
		}
	}
	sb.WriteString("(push 1)\n")
	st.emitDefs(&sb, sv.epoch, asserts...)
	for _, a := range asserts {
		sb.WriteString("(assert ")
		sb.WriteString(ref(a))
		sb.WriteString(")\n")
	}
	sb.WriteString("(check-sat)\n")
	tq := time.Now()
	lines, err := sv.roundTrip(sb.String())
	if d := time.Since(tq); d > 2*time.Second {
		if f := os.Getenv("VERIF_DUMP_SLOW"); f != "" {
			os.WriteFile(fmt.Sprintf("%s.%d.smt2", f, sv.seq), []byte(sb.String()), 0o644)
		}
	}
	res := Unknown
	if err != nil {
		sv.LastError = err.Error()
		if sv.watchdog {
			sv.LastError = "killed by the watchdog after exceeding the time limit"
		} else {
			sv.Stats.Errors++
		}
		sv.Stats.Unknown++
		sv.restart()
		return Unknown, nil
	}
	hasErr := false
	for _, l := range lines {
		if strings.Contains(l, "(error") {
			hasErr = true
			sv.LastError = l
		}
	}
	if !hasErr && len(lines) == 1 {
		switch lines[0] {
		case "sat":
			res = Sat
		case "unsat":
			res = Unsat
		}
	} else if !hasErr {
		sv.LastError = strings.Join(lines, " / ")
	}
	if hasErr {
		sv.Stats.Errors++
	}
	var model Model
	if res == Sat {
		model = Model{}
		if len(coneVars) > 0 {
			var gb strings.Builder
			gb.WriteString("(get-value (")
			for _, v := range coneVars {
				gb.WriteString(v.Name)
				gb.WriteByte(' ')
			}
			gb.WriteString("))\n")
			vl, err := sv.roundTrip(gb.String())
			if err != nil {
				sv.LastError = err.Error()
				sv.Stats.Errors++
				sv.Stats.Unknown++
				sv.restart()
				return Unknown, nil
			}
			txt := strings.Join(vl, " ")
			if strings.Contains(txt, "(error") {
				sv.LastError = txt
				sv.Stats.Errors++
				res = Unknown
			}
			for _, m := range valueRe.FindAllStringSubmatch(txt, -1) {
				var v uint64
				switch {
				case m[2] == "true":
					v = 1
				case m[2] == "false":
					v = 0
				case strings.HasPrefix(m[2], "#x"):
					v, _ = strconv.ParseUint(m[2][2:], 16, 64)
				default:
					v, _ = strconv.ParseUint(m[2][2:], 2, 64)
				}
				model[m[1]] = v
			}
			if res == Sat && len(model) != len(coneVars) {
				sv.LastError = fmt.Sprintf("model has %d of %d values: %s", len(model), len(coneVars), txt)
				sv.Stats.Errors++
				res = Unknown
			}
		}
	}
	if _, err := sv.roundTrip("(pop 1)\n"); err != nil {
		sv.restart()
	}
	switch res {
	case Sat:
		sv.Stats.Sat++
	case Unsat:
		sv.Stats.Unsat++
	default:
		sv.Stats.Unknown++
	}
	return res, model
}

package sym

import (
	"fmt"
	"go/types"

	"golang.org/x/tools/go/ssa"
)

func (ip *Interp) lenOf(v Value) *Term {
	st := ip.st
	switch v := v.(type) {
	case Str:
		if v.SymLen != nil {
			return v.SymLen
		}
		return st.Const(64, uint64(len(v.B)))
	case Slice:
		if v.SymLen != nil {
			return v.SymLen
		}
		return st.Const(64, uint64(v.Len))
	case Array:
		return st.Const(64, uint64(len(v)))
	case Ptr:
		if v.Cell == nil {
			return st.Const(64, 0)
		}
		return st.Const(64, uint64(len((*v.Cell).(Array))))
	case *MapObj:
		if v == nil {
			return st.Const(64, 0)
		}
		return st.Const(64, uint64(len(v.Keys)))
	case nil:
		return st.Const(64, 0)
	}
	panic(fmt.Sprintf("len of %T", v))
}

func (ip *Interp) callBuiltin(fr *frame, fn *ssa.Builtin, args []Value, site ssa.Instruction) Value {
	st := ip.st
	switch fn.Name() {
	case "len":
		return ip.lenOf(args[0])
	case "cap":
		switch v := args[0].(type) {
		case Slice:
			if v.SymCap != nil {
				return v.SymCap
			}
			return st.Const(64, uint64(v.Cap))
		case Array:
			return st.Const(64, uint64(len(v)))
		case Ptr:
			if v.Cell == nil {
				return st.Const(64, 0)
			}
			return st.Const(64, uint64(len((*v.Cell).(Array))))
		}
		panic(fmt.Sprintf("cap of %T", args[0]))
	case "append":
		var et types.Type
		if v, ok := site.(ssa.Value); ok {
			if sl, ok := v.Type().Underlying().(*types.Slice); ok {
				et = sl.Elem()
			}
		}
		return ip.appendOp(args[0].(Slice), args[1], et, site)
	case "copy":
		return ip.copyOp(args[0].(Slice), args[1], site)
	case "delete":
		m := args[0].(*MapObj)
		ip.mapDelete(m, args[1])
		return nil
	case "clear":
		switch v := args[0].(type) {
		case *MapObj:
			if v != nil {
				oldK, oldV := v.Keys, v.Vals
				if ip.logging {
					ip.mapUndo = append(ip.mapUndo, func() { v.Keys, v.Vals = oldK, oldV })
				}
				v.Keys, v.Vals = nil, nil
			}
		default:
			ip.oom("clear of %T", v)
		}
		return nil
	case "print", "println":
		return nil
	case "recover":
		return ip.doRecover(fr)
	case "min", "max":
		r := args[0].(*Term)
		sig := fn.Type().(*types.Signature)
		t := sig.Params().At(0).Type()
		if !isInteger(t) {
			ip.oom("min/max on non-integer")
		}
		for _, a := range args[1:] {
			at := a.(*Term)
			var lt *Term
			if isSigned(t) {
				lt = st.Cmp(OpSLt, at, r)
			} else {
				lt = st.Cmp(OpULt, at, r)
			}
			if fn.Name() == "min" {
				r = st.Ite(lt, at, r)
			} else {
				r = st.Ite(lt, r, at)
			}
		}
		return r
	case "ssa:wrapnilchk":
		p := args[0].(Ptr)
		if p.Cell == nil {
			ip.throw("nil", "value method called using nil pointer", site)
		}
		return p
	case "String": // unsafe.String(ptr *byte, len)
		p := args[0].(Ptr)
		lenT := args[1].(*Term)
		if !lenT.IsConst() {
			// view over a symbolic-length slice: keep the tracked bytes
			if p.Cell == nil || p.Base == nil {
				ip.oom("unsafe.String of non-element pointer")
			}
			b := make([]*Term, 0, len(p.Base)-p.Idx)
			for i := p.Idx; i < len(p.Base); i++ {
				b = append(b, p.Base[i].(*Term))
			}
			return Str{B: b, SymLen: lenT}
		}
		n := int(lenT.Val)
		if n == 0 {
			return Str{}
		}
		if p.Cell == nil || p.Base == nil {
			ip.oom("unsafe.String of non-element pointer")
		}
		if p.Idx+n > len(p.Base) {
			ip.oom("unsafe.String beyond tracked cells")
		}
		b := make([]*Term, n)
		for i := 0; i < n; i++ {
			b[i] = p.Base[p.Idx+i].(*Term)
		}
		return Str{B: b}
	case "StringData":
		s := ip.concStr(args[0].(Str))
		if len(s.B) == 0 {
			return Ptr{}
		}
		base := make([]Value, len(s.B))
		for i, b := range s.B {
			base[i] = b
		}
		return Ptr{Cell: &base[0], Base: base, Idx: 0}
	case "SliceData":
		s := args[0].(Slice)
		if s.Base == nil {
			return Ptr{}
		}
		if s.Cap == 0 || s.Off >= len(s.Base) {
			c := new(Value)
			return Ptr{Cell: c, Base: s.Base, Idx: s.Off}
		}
		return Ptr{Cell: &s.Base[s.Off], Base: s.Base, Idx: s.Off}
	case "Slice": // unsafe.Slice(ptr, len)
		p := args[0].(Ptr)
		n := ip.concInt(args[1].(*Term), "unsafe.Slice len")
		if p.Cell == nil {
			return Slice{}
		}
		if p.Base == nil {
			ip.oom("unsafe.Slice of non-element pointer")
		}
		return Slice{Base: p.Base, Off: p.Idx, Len: n, Cap: n}
	}
	ip.oom("builtin %s", fn.Name())
	return nil
}

func (ip *Interp) doRecover(fr *frame) Value {
	// fr is the frame calling recover(); it must be a deferred function
	// called directly by the panicking frame.
	if fr != nil && !fr.panicking && fr.caller != nil && fr.caller.panicking {
		fr.caller.panicking = false
		p := fr.caller.panicVal
		fr.caller.panicVal = nil
		if gp, ok := p.(goPanic); ok {
			if _, isIface := gp.V.(Iface); isIface {
				return gp.V
			}
			return Iface{T: types.Typ[types.String], V: gp.V}
		}
		panic(p)
	}
	return Iface{}
}

func (ip *Interp) appendOp(s Slice, more Value, et types.Type, site ssa.Instruction) Value {
	s = ip.concSlice(s, "append dst")
	var add []Value
	switch m := more.(type) {
	case Slice:
		m = ip.concSlice(m, "append src")
		add = make([]Value, m.Len)
		for i := 0; i < m.Len; i++ {
			add[i] = copyVal(m.Base[m.Off+i])
		}
	case Str:
		m = ip.concStr(m)
		add = make([]Value, len(m.B))
		for i, b := range m.B {
			add[i] = b
		}
	default:
		panic(fmt.Sprintf("append of %T", more))
	}
	if len(add) == 0 {
		return s
	}
	n := s.Len + len(add)
	if s.Base != nil && n <= s.Cap {
		for i, v := range add {
			ip.storeT(&s.Base[s.Off+s.Len+i], v)
		}
		return Slice{Base: s.Base, Off: s.Off, Len: n, Cap: s.Cap}
	}
	// grow: Go-like doubling
	nc := s.Cap * 2
	if nc < n {
		nc = n
	}
	if s.Cap == 0 && nc < 4 && n <= 4 {
		// small first allocation: exact
		nc = n
	}
	base := make([]Value, nc)
	for i := 0; i < s.Len; i++ {
		base[i] = copyVal(s.Base[s.Off+i])
	}
	copy(base[s.Len:], add)
	if nc > n {
		var z Value
		if et != nil {
			z = ip.zero(et)
		} else {
			z = zeroLike(ip, add[0])
		}
		for i := n; i < nc; i++ {
			base[i] = copyVal(z)
		}
	}
	esz := int64(8)
	if et != nil {
		esz = ip.sizes.Sizeof(et)
	}
	ip.noteAlloc(site, ip.st.Const(64, uint64(int64(nc)*esz)))
	return Slice{Base: base, Off: 0, Len: n, Cap: nc}
}

// zeroLike produces a zero value with the same shape as v.
func zeroLike(ip *Interp, v Value) Value {
	switch v := v.(type) {
	case *Term:
		return ip.st.Const(v.W, 0)
	case Str:
		return Str{}
	case Struct:
		z := make(Struct, len(v))
		for i := range v {
			z[i] = zeroLike(ip, v[i])
		}
		return z
	case Array:
		z := make(Array, len(v))
		for i := range v {
			z[i] = zeroLike(ip, v[i])
		}
		return z
	case Slice:
		return Slice{}
	case Ptr:
		return Ptr{}
	case *MapObj:
		return (*MapObj)(nil)
	case Iface:
		return Iface{}
	case *Closure:
		return (*Closure)(nil)
	case nil:
		return nil
	}
	panic(fmt.Sprintf("zeroLike %T", v))
}

func (ip *Interp) copyOp(dst Slice, src Value, site ssa.Instruction) Value {
	st := ip.st
	var get func(i int) Value
	var srcLenT *Term
	srcTracked := 0
	switch s := src.(type) {
	case Slice:
		srcTracked = s.Len
		if s.SymLen != nil {
			srcLenT = s.SymLen
		} else {
			srcLenT = st.Const(64, uint64(s.Len))
		}
		get = func(i int) Value { return copyVal(s.Base[s.Off+i]) }
	case Str:
		s = ip.concStr(s)
		srcTracked = len(s.B)
		srcLenT = st.Const(64, uint64(len(s.B)))
		get = func(i int) Value { return s.B[i] }
	default:
		panic(fmt.Sprintf("copy from %T", src))
	}
	dstLenT := st.Const(64, uint64(dst.Len))
	if dst.SymLen != nil {
		dstLenT = dst.SymLen
	}
	// n = min(len(dst), len(src))
	var nT *Term
	if dstLenT.IsConst() && srcLenT.IsConst() {
		nT = dstLenT
		if srcLenT.Val < dstLenT.Val {
			nT = srcLenT
		}
	} else if ip.branch(st.Cmp(OpSLe, dstLenT, srcLenT)) {
		nT = dstLenT
	} else {
		nT = srcLenT
	}
	n := ip.concInt(nT, "copy count")
	if n > dst.Len || n > srcTracked {
		ip.oom("copy beyond tracked cells of a symbolic-length slice")
	}
	tmp := make([]Value, n)
	for i := 0; i < n; i++ {
		tmp[i] = get(i)
	}
	for i := 0; i < n; i++ {
		ip.storeT(&dst.Base[dst.Off+i], tmp[i])
	}
	return st.Const(64, uint64(n))
}

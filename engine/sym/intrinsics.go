package sym

import (
	"fmt"
	"go/types"
	"strconv"
	"strings"

	"golang.org/x/tools/go/ssa"
)

// Poison marks a value produced by an unmodelled package initialiser.
type Poison struct{ Msg string }

type intrinsic = func(ip *Interp, fr *frame, args []Value) Value

func (ip *Interp) namedType(pkg, name string) types.Type {
	p := ip.prog.ImportedPackage(pkg)
	if p == nil {
		return nil
	}
	m := p.Type(name)
	if m == nil {
		return nil
	}
	return m.Type()
}

// newError builds an error value &errors.errorString{msg}.
func (ip *Interp) newError(msg Str) Value {
	t := ip.namedType("errors", "errorString")
	if t == nil {
		ip.oom("errors package not loaded")
	}
	c := new(Value)
	*c = Struct{msg}
	return Iface{T: types.NewPointer(t), V: Ptr{Cell: c}}
}

func (ip *Interp) opaqueStr(tag string) Str { return ip.mkStr("<" + tag + ">") }

func (ip *Interp) structFieldIndex(t types.Type, name string) int {
	st := t.Underlying().(*types.Struct)
	for i := 0; i < st.NumFields(); i++ {
		if st.Field(i).Name() == name {
			return i
		}
	}
	panic("no field " + name)
}

func (ip *Interp) registerIntrinsics() {
	in := ip.intrinsics
	st := ip.st

	// ---- fmt: opaque ----
	sprintf := func(ip *Interp, fr *frame, args []Value) Value { return ip.opaqueStr("fmt") }
	in["fmt.Sprintf"] = func(ip *Interp, fr *frame, args []Value) Value {
		if ip.path != nil && ip.path.RealFmt {
			if s, ok := ip.miniSprintf(fr, args[0].(Str), args[1].(Slice)); ok {
				return ip.mkStr(s)
			}
		}
		return ip.opaqueStr("fmt")
	}
	in["fmt.Sprint"] = sprintf
	in["fmt.Sprintln"] = sprintf
	in["fmt.Errorf"] = func(ip *Interp, fr *frame, args []Value) Value {
		// preserve %w wrapping of a single error
		if f, ok := args[0].(Str).concrete(); ok && strings.Contains(f, "%w") {
			va := args[1].(Slice)
			var wrapped Value
			n := 0
			for i := 0; i < va.Len; i++ {
				if e, ok := va.Base[va.Off+i].(Iface); ok && e.T != nil {
					if it, ok2 := ip.namedType("errors", "errorString").(*types.Named); ok2 {
						_ = it
					}
					errT := types.Universe.Lookup("error").Type().Underlying().(*types.Interface)
					if types.Implements(e.T, errT) {
						wrapped = e
						n++
					}
				}
			}
			wt := ip.namedType("fmt", "wrapError")
			if n == 1 && wt != nil && strings.Count(f, "%w") == 1 {
				c := new(Value)
				*c = Struct{ip.opaqueStr("fmt"), wrapped}
				return Iface{T: types.NewPointer(wt), V: Ptr{Cell: c}}
			}
		}
		return ip.newError(ip.opaqueStr("fmt"))
	}
	fprintf := func(ip *Interp, fr *frame, args []Value) Value {
		return Tuple{st.Const(64, 0), Iface{}}
	}
	in["fmt.Fprintf"] = fprintf
	in["fmt.Fprint"] = fprintf
	in["fmt.Fprintln"] = fprintf
	in["fmt.Printf"] = fprintf
	in["fmt.Println"] = fprintf
	in["fmt.Print"] = fprintf

	// ---- log ----
	for _, n := range []string{"log.Fatalf", "log.Fatal", "log.Fatalln", "log.Panicf", "log.Panic"} {
		name := n
		in[name] = func(ip *Interp, fr *frame, args []Value) Value {
			panic(goPanic{V: ip.mkStr(name), Kind: "logfatal", Site: name})
		}
	}
	nop := func(ip *Interp, fr *frame, args []Value) Value { return nil }
	in["log.Printf"] = nop
	in["log.Println"] = nop
	in["log.Print"] = nop

	// ---- sync ----
	for _, n := range []string{"(*sync.Mutex).Lock", "(*sync.Mutex).Unlock", "(*sync.RWMutex).Lock", "(*sync.RWMutex).Unlock",
		"(*sync.RWMutex).RLock", "(*sync.RWMutex).RUnlock", "(*sync.WaitGroup).Add", "(*sync.WaitGroup).Done", "(*sync.WaitGroup).Wait",
		"(*strings.Builder).copyCheck", "runtime.KeepAlive", "runtime.SetFinalizer", "runtime.GC", "runtime.Gosched",
		"internal/race.Acquire", "internal/race.Release", "internal/race.ReleaseMerge", "internal/race.Disable", "internal/race.Enable",
		"internal/race.Read", "internal/race.Write", "internal/race.ReadRange", "internal/race.WriteRange"} {
		in[n] = nop
	}
	in["(*sync.Mutex).TryLock"] = func(ip *Interp, fr *frame, args []Value) Value { return st.T }
	in["(*sync.Pool).Get"] = func(ip *Interp, fr *frame, args []Value) Value {
		p := args[0].(Ptr)
		lst := ip.pools[p.Cell]
		if n := len(lst); n > 0 {
			v := lst[n-1]
			ip.pools[p.Cell] = lst[:n-1]
			return v
		}
		poolT := ip.namedType("sync", "Pool")
		newFn := (*p.Cell).(Struct)[ip.structFieldIndex(poolT, "New")].(*Closure)
		if newFn == nil {
			return Iface{}
		}
		return ip.callValue(fr, newFn, nil, nil)
	}
	in["(*sync.Pool).Put"] = func(ip *Interp, fr *frame, args []Value) Value {
		p := args[0].(Ptr)
		x := args[1].(Iface)
		if x.T == nil {
			return nil
		}
		ip.pools[p.Cell] = append(ip.pools[p.Cell][:len(ip.pools[p.Cell]):len(ip.pools[p.Cell])], x)
		return nil
	}

	// ---- sync/atomic ----
	for _, ty := range []string{"Int32", "Int64", "Uint32", "Uint64", "Uintptr", "Pointer"} {
		in["sync/atomic.Load"+ty] = func(ip *Interp, fr *frame, args []Value) Value {
			return ip.load(args[0].(Ptr))
		}
		in["sync/atomic.Store"+ty] = func(ip *Interp, fr *frame, args []Value) Value {
			ip.storeT(args[0].(Ptr).Cell, args[1])
			return nil
		}
		in["sync/atomic.Swap"+ty] = func(ip *Interp, fr *frame, args []Value) Value {
			old := ip.load(args[0].(Ptr))
			ip.storeT(args[0].(Ptr).Cell, args[1])
			return old
		}
		if ty != "Pointer" {
			in["sync/atomic.Add"+ty] = func(ip *Interp, fr *frame, args []Value) Value {
				p := args[0].(Ptr)
				nv := st.Bin(OpAdd, (*p.Cell).(*Term), args[1].(*Term))
				ip.store(p.Cell, nv)
				return nv
			}
			in["sync/atomic.CompareAndSwap"+ty] = func(ip *Interp, fr *frame, args []Value) Value {
				p := args[0].(Ptr)
				eq := st.Eq((*p.Cell).(*Term), args[1].(*Term))
				if ip.branch(eq) {
					ip.store(p.Cell, args[2])
					return st.T
				}
				return st.F
			}
		} else {
			in["sync/atomic.CompareAndSwapPointer"] = func(ip *Interp, fr *frame, args []Value) Value {
				p := args[0].(Ptr)
				if samePtr((*p.Cell).(Ptr), args[1].(Ptr)) {
					ip.store(p.Cell, args[2])
					return st.T
				}
				return st.F
			}
		}
	}

	// ---- math ----
	ident := func(ip *Interp, fr *frame, args []Value) Value { return args[0] }
	in["math.Float64bits"] = ident
	in["math.Float64frombits"] = ident
	in["math.Float32bits"] = ident
	in["math.Float32frombits"] = ident

	// ---- bytes / strings search kernels (reference loops over byte terms) ----
	bytesOf := func(v Value) []*Term {
		switch v := v.(type) {
		case Str:
			return ip.concStr(v).B
		case Slice:
			v = ip.concSlice(v, "byte search")
			out := make([]*Term, v.Len)
			for i := range out {
				out[i] = v.Base[v.Off+i].(*Term)
			}
			return out
		}
		panic(fmt.Sprintf("bytesOf %T", v))
	}
	indexFn := func(ip *Interp, fr *frame, args []Value) Value {
		s, sep := bytesOf(args[0]), bytesOf(args[1])
		for i := 0; i+len(sep) <= len(s); i++ {
			c := st.T
			for j := range sep {
				c = st.And(c, st.Eq(s[i+j], sep[j]))
			}
			if ip.branch(c) {
				return st.Const(64, uint64(i))
			}
		}
		return st.Const(64, ^uint64(0))
	}
	indexByteFn := func(ip *Interp, fr *frame, args []Value) Value {
		s := bytesOf(args[0])
		c := args[1].(*Term)
		for i := range s {
			if ip.branch(st.Eq(s[i], c)) {
				return st.Const(64, uint64(i))
			}
		}
		return st.Const(64, ^uint64(0))
	}
	lastIndexByteFn := func(ip *Interp, fr *frame, args []Value) Value {
		s := bytesOf(args[0])
		c := args[1].(*Term)
		for i := len(s) - 1; i >= 0; i-- {
			if ip.branch(st.Eq(s[i], c)) {
				return st.Const(64, uint64(i))
			}
		}
		return st.Const(64, ^uint64(0))
	}
	countFn := func(ip *Interp, fr *frame, args []Value) Value {
		s := bytesOf(args[0])
		c := args[1].(*Term)
		n := st.Const(64, 0)
		for i := range s {
			n = st.Bin(OpAdd, n, st.B2BV(st.Eq(s[i], c), 64))
		}
		return n
	}
	equalFn := func(ip *Interp, fr *frame, args []Value) Value {
		a, b := bytesOf(args[0]), bytesOf(args[1])
		return ip.strEq(Str{B: a}, Str{B: b})
	}
	in["internal/bytealg.Index"] = indexFn
	in["internal/bytealg.IndexString"] = indexFn
	in["strings.Index"] = indexFn
	in["bytes.Index"] = indexFn
	in["internal/bytealg.IndexByte"] = indexByteFn
	in["internal/bytealg.IndexByteString"] = indexByteFn
	in["strings.IndexByte"] = indexByteFn
	in["bytes.IndexByte"] = indexByteFn
	in["internal/bytealg.LastIndexByte"] = lastIndexByteFn
	in["internal/bytealg.LastIndexByteString"] = lastIndexByteFn
	in["strings.LastIndexByte"] = lastIndexByteFn
	in["bytes.LastIndexByte"] = lastIndexByteFn
	in["internal/bytealg.Count"] = countFn
	in["internal/bytealg.CountString"] = countFn
	in["internal/bytealg.Equal"] = equalFn
	in["bytes.Equal"] = equalFn
	in["internal/bytealg.Compare"] = func(ip *Interp, fr *frame, args []Value) Value {
		a, b := Str{B: bytesOf(args[0])}, Str{B: bytesOf(args[1])}
		lt := ip.strLess(a, b, false)
		eq := ip.strEq(a, b)
		return st.Ite(lt, st.Const(64, ^uint64(0)), st.Ite(eq, st.Const(64, 0), st.Const(64, 1)))
	}
	in["internal/bytealg.MakeNoZero"] = func(ip *Interp, fr *frame, args []Value) Value {
		lenT := args[0].(*Term)
		// same run-time check and accounting as make([]byte, n)
		ok := st.AndAll(st.Cmp(OpSLe, st.Const(64, 0), lenT), st.Cmp(OpULe, lenT, st.Const(64, 1<<47)))
		ip.guard(ok, "makeslice", "makeslice: len out of range", nil)
		ip.noteAlloc(nil, lenT)
		z := st.Const(8, 0)
		mk := func(n int) []Value {
			base := make([]Value, n)
			for i := range base {
				base[i] = z
			}
			return base
		}
		if !lenT.IsConst() {
			lim := 16
			if ip.path != nil {
				lim = ip.path.BigLim
			}
			return Slice{Base: mk(lim), Len: lim, Cap: lim, SymLen: lenT, SymCap: lenT}
		}
		n := int(lenT.Val)
		if n > 1<<24 {
			ip.oom("concrete allocation of %d bytes", n)
		}
		return Slice{Base: mk(n), Len: n, Cap: n}
	}
	in["internal/stringslite.Index"] = indexFn
	in["internal/stringslite.IndexByte"] = indexByteFn
	in["strings.Contains"] = func(ip *Interp, fr *frame, args []Value) Value {
		r := indexFn(ip, fr, args).(*Term)
		return st.Bool(sext(r.Val, 64) >= 0)
	}
	in["bytes.Contains"] = in["strings.Contains"]

	// ---- errors ----
	in["errors.Is"] = func(ip *Interp, fr *frame, args []Value) Value {
		err, target := args[0].(Iface), args[1].(Iface)
		errT := types.Universe.Lookup("error").Type()
		for depth := 0; depth < 32; depth++ {
			if err.T == nil {
				return st.Bool(target.T == nil)
			}
			if target.T != nil && types.Comparable(err.T) {
				eq := ip.equals(errT, err, target, nil)
				if ip.branch(eq) {
					return st.T
				}
			}
			f := ip.lookupMethodOpt(err.T, "Unwrap")
			if f == nil {
				return st.F
			}
			if f.Signature.Results().Len() != 1 || !types.Identical(f.Signature.Results().At(0).Type(), errT) {
				ip.oom("errors.Is over Unwrap() []error")
			}
			err = ip.callSSA(fr, f, []Value{err.V}, nil).(Iface)
		}
		ip.oom("errors.Is chain too long")
		return nil
	}

	for _, n := range []string{"internal/reflectlite.TypeOf", "reflect.TypeOf", "reflect.ValueOf", "internal/reflectlite.ValueOf", "internal/abi.TypeOf"} {
		name := n
		in[name] = func(ip *Interp, fr *frame, args []Value) Value {
			ip.oom("reflection (%s)", name)
			return nil
		}
	}

	// ---- internal/concurrent.Range: sequential, every order ----
	in["go.uber.org/thriftrw/internal/concurrent.Range"] = func(ip *Interp, fr *frame, args []Value) Value {
		coll, fnI := args[0].(Iface), args[1].(Iface)
		if coll.T == nil || fnI.T == nil {
			ip.throw("explicit", "concurrent.Range: nil argument", nil)
		}
		fn := fnI.V
		var errs []Value
		call := func(k, v Value) {
			r := ip.callValue(fr, fn, []Value{k, v}, nil)
			if e, ok := r.(Iface); ok && e.T != nil {
				errs = append(errs, e)
			}
		}
		switch c := coll.V.(type) {
		case Slice:
			c = ip.concSlice(c, "concurrent.Range")
			order := make([]int, c.Len)
			for i := range order {
				order[i] = i
			}
			for i := 0; i < c.Len-1; i++ {
				k := ip.choose(c.Len-i, "concurrent order")
				order[i], order[i+k] = order[i+k], order[i]
			}
			for _, i := range order {
				call(st.Const(64, uint64(i)), copyVal(c.Base[c.Off+i]))
			}
		case *MapObj:
			if c != nil {
				for _, i := range ip.mapOrder(len(c.Keys)) {
					call(copyVal(c.Keys[i]), copyVal(c.Vals[i]))
				}
			}
		default:
			ip.oom("concurrent.Range over %T", coll.V)
		}
		mp := ip.prog.ImportedPackage("go.uber.org/multierr")
		if mp == nil {
			ip.oom("multierr not loaded")
		}
		return ip.callSSA(fr, mp.Func("Combine"), []Value{Slice{Base: append([]Value{}, errs...), Len: len(errs), Cap: len(errs)}}, nil)
	}

	// ---- gen.sortStringKeys: reflect-based in the source; summary: the keys of
	// the map (in the model's association order), sorted by the real sort.Strings ----
	in["go.uber.org/thriftrw/gen.sortStringKeys"] = func(ip *Interp, fr *frame, args []Value) Value {
		m, ok := args[0].(Iface)
		if !ok || m.T == nil {
			ip.oom("sortStringKeys of a nil interface")
		}
		mo, ok := m.V.(*MapObj)
		if !ok {
			ip.oom("sortStringKeys of %T", m.V)
		}
		var keys []Value
		if mo != nil {
			for _, k := range mo.Keys {
				if _, isStr := k.(Str); !isStr {
					ip.oom("sortStringKeys: key %T", k)
				}
				keys = append(keys, copyVal(k))
			}
		}
		sl := Slice{Base: keys, Len: len(keys), Cap: len(keys)}
		sp := ip.prog.ImportedPackage("sort")
		if sp == nil {
			ip.oom("sort not loaded")
		}
		ip.callSSA(fr, sp.Func("Strings"), []Value{sl}, nil)
		return sl
	}

	// ---- strconv.ParseFloat on symbolic digits ----
	in["strconv.ParseFloat"] = func(ip *Interp, fr *frame, args []Value) Value {
		s := ip.concStr(args[0].(Str))
		if _, ok := s.concrete(); ok || ip.path == nil {
			return ip.callBody(fr, "strconv", "ParseFloat", args)
		}
		if len(s.B) > 4 {
			ip.oom("strconv.ParseFloat on a symbolic string longer than 4 bytes")
		}
		// Stub: an arbitrary float64 and no error. Sound for callers that have
		// already matched the token against the decimal-float grammar (a token
		// of <= 4 bytes cannot overflow or underflow float64).
		p := ip.path
		p.naux++
		v := ip.st.Var("aux"+strconv.Itoa(p.naux)+"w64", 64)
		return Tuple{v, Iface{}}
	}

	// ---- context ----
	in["context.Background"] = func(ip *Interp, fr *frame, args []Value) Value { return Iface{} }
	in["context.TODO"] = in["context.Background"]
}

// callInit runs a call made from a package initialiser, tolerating
// unmodelled callees by poisoning the result.
func (ip *Interp) callInit(fr *frame, fn Value, args []Value, site *ssa.Call) (res Value) {
	defer func() {
		if e := recover(); e != nil {
			if pe, ok := e.(pathEnd); ok && pe.Kind == "oom" {
				ip.initPoison = append(ip.initPoison, fmt.Sprintf("%s: %s", fr.fn.Pkg.Pkg.Path(), pe.Msg))
				res = poisonFor(site.Type(), pe.Msg)
				return
			}
			if re, ok := e.(interface{ RuntimeError() }); ok {
				_ = re
				msg := fmt.Sprintf("engine cannot interpret (%v) at %s", e, ip.Where())
				ip.initPoison = append(ip.initPoison, fmt.Sprintf("%s: %s", fr.fn.Pkg.Pkg.Path(), msg))
				res = poisonFor(site.Type(), msg)
				return
			}
			panic(e)
		}
	}()
	return ip.callValue(fr, fn, args, site)
}

func poisonFor(t types.Type, msg string) Value {
	if tu, ok := t.(*types.Tuple); ok {
		if tu.Len() == 0 {
			return nil
		}
		out := make(Tuple, tu.Len())
		for i := range out {
			out[i] = Poison{msg}
		}
		return out
	}
	return Poison{msg}
}

// callBody interprets the real body of pkg.name, bypassing its intrinsic.
func (ip *Interp) callBody(fr *frame, pkg, name string, args []Value) Value {
	p := ip.prog.ImportedPackage(pkg)
	if p == nil {
		ip.oom("package %s not loaded", pkg)
	}
	fn := p.Func(name)
	key := fn.String()
	h := ip.intrinsics[key]
	delete(ip.intrinsics, key)
	defer func() { ip.intrinsics[key] = h }()
	return ip.callSSA(fr, fn, args, nil)
}

package sym

import (
	"fmt"
	"go/token"
	"go/types"
	"math"
	"unicode/utf8"

	"golang.org/x/tools/go/ssa"
)

func (ip *Interp) unop(fr *frame, instr *ssa.UnOp, x Value) Value {
	st := ip.st
	switch instr.Op {
	case token.MUL: // load
		p := x.(Ptr)
		if p.Cell == nil {
			ip.throw("nil", "nil pointer dereference (load)", instr)
		}
		return ip.load(p)
	case token.NOT:
		return st.Not(x.(*Term))
	case token.SUB:
		t := x.(*Term)
		if isFloat(instr.X.Type()) {
			return st.Bin(OpBXor, t, st.Const(t.W, uint64(1)<<uint(t.W-1)))
		}
		return st.Neg(t)
	case token.XOR:
		return st.BNot(x.(*Term))
	case token.ARROW:
		ip.oom("channel receive")
	}
	panic(fmt.Sprintf("unop %v", instr.Op))
}

func (ip *Interp) floatArith(op token.Token, w int, a, b *Term, site ssa.Instruction) Value {
	if !a.IsConst() || !b.IsConst() {
		ip.oom("symbolic floating-point arithmetic at %s", siteOf(site))
	}
	x, y := f64(w, a.Val), f64(w, b.Val)
	var r float64
	switch op {
	case token.ADD:
		r = x + y
	case token.SUB:
		r = x - y
	case token.MUL:
		r = x * y
	case token.QUO:
		r = x / y
	default:
		panic("float op")
	}
	if w == 32 {
		return ip.st.Const(32, uint64(math.Float32bits(float32(r))))
	}
	return ip.st.Const(64, math.Float64bits(r))
}

func (ip *Interp) binop(op token.Token, t types.Type, x, y Value, site ssa.Instruction) Value {
	st := ip.st
	x, y = ip.concStrV(x), ip.concStrV(y)
	switch op {
	case token.EQL:
		return ip.equals(t, x, y, site)
	case token.NEQ:
		return st.Not(ip.equals(t, x, y, site))
	}
	switch xv := x.(type) {
	case Str:
		yv := y.(Str)
		switch op {
		case token.ADD:
			b := make([]*Term, 0, len(xv.B)+len(yv.B))
			b = append(b, xv.B...)
			b = append(b, yv.B...)
			return Str{B: b}
		case token.LSS:
			return ip.strLess(xv, yv, false)
		case token.LEQ:
			return ip.strLess(xv, yv, true)
		case token.GTR:
			return ip.strLess(yv, xv, false)
		case token.GEQ:
			return ip.strLess(yv, xv, true)
		}
	case *Term:
		yv := y.(*Term)
		if isFloat(t) {
			switch op {
			case token.ADD, token.SUB, token.MUL, token.QUO:
				return ip.floatArith(op, xv.W, xv, yv, site)
			case token.LSS:
				return st.FCmp(OpFLt, xv, yv)
			case token.LEQ:
				return st.FCmp(OpFLe, xv, yv)
			case token.GTR:
				return st.FCmp(OpFLt, yv, xv)
			case token.GEQ:
				return st.FCmp(OpFLe, yv, xv)
			}
		}
		signed := isSigned(t)
		switch op {
		case token.ADD:
			return st.Bin(OpAdd, xv, yv)
		case token.SUB:
			return st.Bin(OpSub, xv, yv)
		case token.MUL:
			return st.Bin(OpMul, xv, yv)
		case token.QUO, token.REM:
			ip.guard(st.Not(st.Eq(yv, st.Const(yv.W, 0))), "divzero", "integer divide by zero", site)
			var o Op
			switch {
			case op == token.QUO && signed:
				o = OpSDiv
			case op == token.QUO:
				o = OpUDiv
			case signed:
				o = OpSRem
			default:
				o = OpURem
			}
			return st.Bin(o, xv, yv)
		case token.AND:
			return st.Bin(OpBAnd, xv, yv)
		case token.OR:
			return st.Bin(OpBOr, xv, yv)
		case token.XOR:
			return st.Bin(OpBXor, xv, yv)
		case token.AND_NOT:
			return st.Bin(OpBAnd, xv, st.BNot(yv))
		case token.SHL, token.SHR:
			// y may have a different width; Go: count >= width gives 0 (or sign fill).
			var o Op
			switch {
			case op == token.SHL:
				o = OpShl
			case signed:
				o = OpAShr
			default:
				o = OpLShr
			}
			cnt := yv
			if cnt.W > xv.W {
				// saturate: if cnt >= W use W (SMT shift by >= width gives the Go result)
				big := st.Cmp(OpULe, st.Const(cnt.W, uint64(xv.W)), cnt)
				cnt = st.Ite(big, st.Const(xv.W, uint64(xv.W)), st.Extract(cnt, xv.W-1, 0))
				if xv.W < 8 {
					ip.oom("shift of narrow type")
				}
			} else if cnt.W < xv.W {
				cnt = st.ZExt(cnt, xv.W)
			}
			return st.Bin(o, xv, cnt)
		case token.LSS:
			if signed {
				return st.Cmp(OpSLt, xv, yv)
			}
			return st.Cmp(OpULt, xv, yv)
		case token.LEQ:
			if signed {
				return st.Cmp(OpSLe, xv, yv)
			}
			return st.Cmp(OpULe, xv, yv)
		case token.GTR:
			if signed {
				return st.Cmp(OpSLt, yv, xv)
			}
			return st.Cmp(OpULt, yv, xv)
		case token.GEQ:
			if signed {
				return st.Cmp(OpSLe, yv, xv)
			}
			return st.Cmp(OpULe, yv, xv)
		}
	}
	panic(fmt.Sprintf("binop %v on %T (%v)", op, x, t))
}

func (ip *Interp) strEq(a, b Str) *Term {
	if len(a.B) != len(b.B) {
		return ip.st.F
	}
	r := ip.st.T
	for i := range a.B {
		r = ip.st.And(r, ip.st.Eq(a.B[i], b.B[i]))
		if r.IsFalse() {
			return r
		}
	}
	return r
}

// strLess returns a < b (or a <= b) lexicographically.
func (ip *Interp) strLess(a, b Str, orEq bool) *Term {
	st := ip.st
	n := len(a.B)
	if len(b.B) < n {
		n = len(b.B)
	}
	// result if all of the first n bytes are equal
	var tail *Term
	if orEq {
		tail = st.Bool(len(a.B) <= len(b.B))
	} else {
		tail = st.Bool(len(a.B) < len(b.B))
	}
	r := tail
	for i := n - 1; i >= 0; i-- {
		lt := st.Cmp(OpULt, a.B[i], b.B[i])
		eq := st.Eq(a.B[i], b.B[i])
		r = st.Or(lt, st.And(eq, r))
	}
	return r
}

func samePtr(a, b Ptr) bool { return a.Cell == b.Cell }

// equals implements == for values of static type t.
func (ip *Interp) equals(t types.Type, x, y Value, site ssa.Instruction) *Term {
	st := ip.st
	switch xv := x.(type) {
	case *Term:
		yv := y.(*Term)
		if isFloat(t) {
			return st.FCmp(OpFEq, xv, yv)
		}
		return st.Eq(xv, yv)
	case Str:
		return ip.strEq(ip.concStr(xv), ip.concStr(y.(Str)))
	case Ptr:
		return st.Bool(samePtr(xv, y.(Ptr)))
	case Iface:
		yv := y.(Iface)
		if xv.T == nil || yv.T == nil {
			return st.Bool(xv.T == nil && yv.T == nil)
		}
		if !(xv.T == yv.T || types.Identical(xv.T, yv.T)) {
			return st.F
		}
		if !types.Comparable(xv.T) {
			ip.throw("uncomparable", fmt.Sprintf("comparing uncomparable type %v", xv.T), site)
		}
		return ip.equals(xv.T, xv.V, yv.V, site)
	case Struct:
		yv := y.(Struct)
		stt := t.Underlying().(*types.Struct)
		r := st.T
		for i := range xv {
			if stt.Field(i).Name() == "_" {
				continue
			}
			r = st.And(r, ip.equals(stt.Field(i).Type(), xv[i], yv[i], site))
		}
		return r
	case Array:
		yv := y.(Array)
		et := t.Underlying().(*types.Array).Elem()
		r := st.T
		for i := range xv {
			r = st.And(r, ip.equals(et, xv[i], yv[i], site))
		}
		return r
	case *Closure:
		yv, _ := y.(*Closure)
		return st.Bool(xv == nil && yv == nil || xv == yv)
	case *MapObj:
		yv, _ := y.(*MapObj)
		return st.Bool(xv == yv)
	case Slice:
		yv := y.(Slice)
		// only comparison with nil is legal
		return st.Bool(xv.Base == nil && yv.Base == nil)
	case nil:
		return st.Bool(y == nil)
	}
	panic(fmt.Sprintf("equals on %T", x))
}

func (ip *Interp) conv(dst, src types.Type, x Value, site ssa.Instruction) Value {
	st := ip.st
	x = ip.concStrV(x)
	ud, us := dst.Underlying(), src.Underlying()
	switch us := us.(type) {
	case *types.Pointer:
		// *T -> unsafe.Pointer
		return x
	case *types.Slice:
		// []byte/[]rune -> string
		if isString(ud) {
			s := ip.concSlice(x.(Slice), "string(slice)")
			eb := us.Elem().Underlying().(*types.Basic)
			if eb.Kind() == types.Uint8 {
				b := make([]*Term, s.Len)
				for i := 0; i < s.Len; i++ {
					b[i] = s.Base[s.Off+i].(*Term)
				}
				return Str{B: b}
			}
			// []rune -> string, concrete only
			var rs []rune
			for i := 0; i < s.Len; i++ {
				t := s.Base[s.Off+i].(*Term)
				if !t.IsConst() {
					ip.oom("[]rune->string with symbolic rune")
				}
				rs = append(rs, rune(int32(t.Val)))
			}
			return ip.mkStr(string(rs))
		}
	case *types.Basic:
		if us.Kind() == types.UnsafePointer {
			if _, ok := ud.(*types.Pointer); ok {
				return x
			}
			if b, ok := ud.(*types.Basic); ok && b.Kind() == types.UnsafePointer {
				return x
			}
			if b, ok := ud.(*types.Basic); ok && b.Kind() == types.Uintptr {
				ip.oom("unsafe.Pointer -> uintptr at %s", siteOf(site))
			}
		}
		if us.Info()&types.IsString != 0 {
			s := x.(Str)
			if sl, ok := ud.(*types.Slice); ok {
				eb := sl.Elem().Underlying().(*types.Basic)
				if eb.Kind() == types.Uint8 {
					base := make([]Value, len(s.B))
					for i, b := range s.B {
						base[i] = b
					}
					ip.noteAlloc(site, st.Const(64, uint64(len(s.B))))
					return Slice{Base: base, Len: len(base), Cap: len(base)}
				}
				cs, ok := s.concrete()
				if !ok {
					ip.oom("string->[]rune with symbolic bytes")
				}
				rs := []rune(cs)
				base := make([]Value, len(rs))
				for i, r := range rs {
					base[i] = st.Const(32, uint64(uint32(r)))
				}
				return Slice{Base: base, Len: len(base), Cap: len(base)}
			}
			if isString(ud) {
				return x
			}
		}
		if db, ok := ud.(*types.Basic); ok {
			t, isT := x.(*Term)
			if !isT {
				break
			}
			switch {
			case db.Info()&types.IsString != 0 && us.Info()&types.IsInteger != 0:
				// string(rune)
				if !t.IsConst() {
					ip.oom("string(symbolic rune)")
				}
				r := rune(sext(t.Val, t.W))
				if sext(t.Val, t.W) > utf8.MaxRune || sext(t.Val, t.W) < 0 {
					r = utf8.RuneError
				}
				return ip.mkStr(string(r))
			case db.Info()&types.IsInteger != 0 && us.Info()&types.IsInteger != 0:
				dw := ip.width(db)
				if dw <= t.W {
					return st.Extract(t, dw-1, 0)
				}
				if us.Info()&types.IsUnsigned != 0 {
					return st.ZExt(t, dw)
				}
				return st.SExt(t, dw)
			case db.Info()&types.IsFloat != 0 && us.Info()&types.IsInteger != 0:
				if !t.IsConst() {
					ip.oom("symbolic int -> float conversion at %s", siteOf(site))
				}
				var f float64
				if us.Info()&types.IsUnsigned != 0 {
					f = float64(t.Val)
				} else {
					f = float64(sext(t.Val, t.W))
				}
				if db.Kind() == types.Float32 {
					return st.Const(32, uint64(math.Float32bits(float32(f))))
				}
				return st.Const(64, math.Float64bits(f))
			case db.Info()&types.IsInteger != 0 && us.Info()&types.IsFloat != 0:
				if !t.IsConst() {
					ip.oom("symbolic float -> int conversion at %s", siteOf(site))
				}
				f := f64(t.W, t.Val)
				dw := ip.width(db)
				if db.Info()&types.IsUnsigned != 0 {
					return st.Const(dw, uint64(f))
				}
				return st.Const(dw, uint64(int64(f)))
			case db.Info()&types.IsFloat != 0 && us.Info()&types.IsFloat != 0:
				dw := ip.width(db)
				if dw == t.W {
					return t
				}
				if !t.IsConst() {
					ip.oom("symbolic float width conversion")
				}
				f := f64(t.W, t.Val)
				if dw == 32 {
					return st.Const(32, uint64(math.Float32bits(float32(f))))
				}
				return st.Const(64, math.Float64bits(f))
			case db.Kind() == types.UnsafePointer && us.Kind() == types.Uintptr:
				ip.oom("uintptr -> unsafe.Pointer at %s", siteOf(site))
			}
		}
	}
	ip.oom("conversion %v -> %v at %s", src, dst, siteOf(site))
	return nil
}

// ---- slices, arrays, strings ----

// concInt returns the concrete value of an int term, concretising if needed.
func (ip *Interp) concInt(t *Term, what string) int {
	if t.IsConst() {
		return int(sext(t.Val, t.W))
	}
	v := ip.concretize(t, what)
	return int(sext(v, t.W))
}

func (ip *Interp) asInt64(v Value) *Term {
	t := v.(*Term)
	return t
}

func (ip *Interp) makeSlice(fr *frame, instr *ssa.MakeSlice) Value {
	st := ip.st
	et := instr.Type().Underlying().(*types.Slice).Elem()
	lenT := fr.get(instr.Len).(*Term)
	capT := fr.get(instr.Cap).(*Term)
	lenT = ip.toInt64(lenT, instr.Len.Type())
	capT = ip.toInt64(capT, instr.Cap.Type())
	esz := ip.sizes.Sizeof(et)
	// run-time checks: 0 <= len <= cap, and cap*esz does not overflow / exceed max alloc
	maxElems := uint64(1) << 47
	if esz > 0 {
		maxElems = (uint64(1) << 47) / uint64(esz)
	}
	ok := st.AndAll(
		st.Cmp(OpSLe, st.Const(64, 0), lenT),
		st.Cmp(OpSLe, lenT, capT),
		st.Cmp(OpULe, capT, st.Const(64, maxElems)),
	)
	ip.guard(ok, "makeslice", "makeslice: len or cap out of range", instr)
	ip.noteAlloc(instr, st.Bin(OpMul, capT, st.Const(64, uint64(esz))))
	lim := 16
	if ip.path != nil {
		lim = ip.path.BigLim
	}
	if !capT.IsConst() || !lenT.IsConst() {
		// case split small values; the rest becomes a big slice (if len == cap)
		if lenT != capT {
			n := ip.concInt(lenT, "make len")
			if !capT.IsConst() {
				// capacity hint only: tracked capacity = length, symbolic capacity kept for cap()
				s := ip.newSlice(et, n, n)
				if s.Base == nil {
					s.Base = []Value{}
				}
				s.SymCap = capT
				return s
			}
			c := ip.concInt(capT, "make cap")
			return ip.newSlice(et, n, c)
		}
		// symbolic length: lim tracked cells; the length is made concrete
		// lazily, only where an operation needs it (copy counts, conversions)
		s := ip.newSlice(et, lim, lim)
		s.SymLen = lenT
		s.SymCap = lenT
		return s
	}
	n, c := int(lenT.Val), int(capT.Val)
	if c > 1<<24 {
		ip.oom("concrete make of %d elements", c)
	}
	return ip.newSlice(et, n, c)
}

func (ip *Interp) toInt64(t *Term, typ types.Type) *Term {
	if t.W == 64 {
		return t
	}
	if isSigned(typ) {
		return ip.st.SExt(t, 64)
	}
	return ip.st.ZExt(t, 64)
}

func (ip *Interp) newSlice(et types.Type, n, c int) Slice {
	base := make([]Value, c)
	if c > 0 {
		z := ip.zero(et)
		for i := range base {
			if i == 0 {
				base[i] = z
			} else {
				base[i] = copyVal(z)
			}
		}
	}
	return Slice{Base: base, Len: n, Cap: c}
}

func (ip *Interp) boundsCheck(idx *Term, n int, site ssa.Instruction) {
	st := ip.st
	ok := st.Cmp(OpULt, idx, st.Const(idx.W, uint64(n)))
	ip.guard(ok, "index", fmt.Sprintf("index out of range [len %d]", n), site)
}

// idxTerm normalises an index operand to a 64-bit signed term.
func (ip *Interp) idxTerm(v Value, t types.Type) *Term {
	return ip.toInt64(v.(*Term), t)
}

func (ip *Interp) indexAddr(fr *frame, instr *ssa.IndexAddr) Value {
	x := fr.get(instr.X)
	idx := ip.idxTerm(fr.get(instr.Index), instr.Index.Type())
	switch x := x.(type) {
	case Slice:
		if x.SymLen != nil {
			ok := ip.st.Cmp(OpULt, idx, x.SymLen)
			ip.guard(ok, "index", "index out of range (big slice)", instr)
			i := ip.concInt(idx, "big slice index")
			if i >= x.Len {
				ip.oom("access to untracked cell %d of big slice", i)
			}
			return Ptr{Cell: &x.Base[x.Off+i], Base: x.Base, Idx: x.Off + i}
		}
		ip.boundsCheck(idx, x.Len, instr)
		if !idx.IsConst() && x.Len > 1 {
			if sp, ok := ip.symElemPtr(idx, x.Base, x.Off, x.Len); ok {
				return sp
			}
		}
		i := ip.concInt(idx, "slice index")
		return Ptr{Cell: &x.Base[x.Off+i], Base: x.Base, Idx: x.Off + i}
	case Ptr:
		if x.Cell == nil {
			ip.throw("nil", "nil pointer dereference (array index)", instr)
		}
		a := (*x.Cell).(Array)
		ip.boundsCheck(idx, len(a), instr)
		if !idx.IsConst() && len(a) > 1 {
			if sp, ok := ip.symElemPtr(idx, a, 0, len(a)); ok {
				return sp
			}
		}
		i := ip.concInt(idx, "array index")
		return Ptr{Cell: &a[i], Base: a, Idx: i}
	}
	panic(fmt.Sprintf("indexAddr on %T", x))
}

// selectByIndex builds the value elems[idx] for a symbolic idx over scalar
// elements as an ite chain (grouped by identical element terms).
func (ip *Interp) selectByIndex(idx *Term, n int, elem func(i int) *Term) *Term {
	st := ip.st
	res := elem(n - 1)
	last := res
	for i := n - 2; i >= 0; i-- {
		e := elem(i)
		if e == last {
			continue
		}
		last = e
		// all indices <= i that map to e up to the previous change point: use idx <= i
		res = st.Ite(st.Cmp(OpULe, idx, st.Const(idx.W, uint64(i))), e, res)
	}
	return res
}

func (ip *Interp) indexOp(fr *frame, instr *ssa.Index) Value {
	x := ip.concStrV(fr.get(instr.X))
	idx := ip.idxTerm(fr.get(instr.Index), instr.Index.Type())
	switch x := x.(type) {
	case Array:
		ip.boundsCheck(idx, len(x), instr)
		if !idx.IsConst() && len(x) > 0 {
			if _, ok := x[0].(*Term); ok {
				return ip.selectByIndex(idx, len(x), func(i int) *Term { return x[i].(*Term) })
			}
		}
		return x[ip.concInt(idx, "array index")]
	case Str:
		ip.boundsCheck(idx, len(x.B), instr)
		if !idx.IsConst() {
			return ip.selectByIndex(idx, len(x.B), func(i int) *Term { return x.B[i] })
		}
		return x.B[int(idx.Val)]
	}
	panic(fmt.Sprintf("index on %T", x))
}

func (ip *Interp) lookup(fr *frame, instr *ssa.Lookup) Value {
	x := ip.concStrV(fr.get(instr.X))
	switch x := x.(type) {
	case Str:
		idx := ip.idxTerm(fr.get(instr.Index), instr.Index.Type())
		ip.boundsCheck(idx, len(x.B), instr)
		if !idx.IsConst() {
			return ip.selectByIndex(idx, len(x.B), func(i int) *Term { return x.B[i] })
		}
		return x.B[int(idx.Val)]
	case *MapObj:
		mt := instr.X.Type().Underlying().(*types.Map)
		key := fr.get(instr.Index)
		var v Value
		found := false
		if x != nil {
			if i := ip.mapFind(x, key, instr); i >= 0 {
				v = copyVal(x.Vals[i])
				found = true
			}
		}
		if !found {
			v = ip.zero(mt.Elem())
		}
		if instr.CommaOk {
			return Tuple{v, ip.st.Bool(found)}
		}
		return v
	}
	panic(fmt.Sprintf("lookup on %T", x))
}

// mapFind returns the index of key in m or -1, forking on symbolic equality.
func (ip *Interp) mapFind(m *MapObj, key Value, site ssa.Instruction) int {
	if ifk, ok := key.(Iface); ok && ifk.T != nil && !types.Comparable(ifk.T) {
		ip.throw("unhashable", fmt.Sprintf("hash of unhashable type %v", ifk.T), site)
	}
	for i, k := range m.Keys {
		eq := ip.mapKeyEq(m.KT, k, key, site)
		if eq.IsTrue() {
			return i
		}
		if eq.IsFalse() {
			continue
		}
		if ip.branch(eq) {
			return i
		}
	}
	return -1
}

// mapKeyEq is == except that NaN keys never match (same as ==) and
// interface keys compare dynamic types first.
func (ip *Interp) mapKeyEq(kt types.Type, a, b Value, site ssa.Instruction) *Term {
	return ip.equals(kt, a, b, site)
}

func (ip *Interp) mapUpdate(m *MapObj, key, val Value) {
	i := ip.mapFind(m, key, nil)
	if i >= 0 {
		old := m.Vals[i]
		if ip.logging {
			ip.mapUndo = append(ip.mapUndo, func() { m.Vals[i] = old })
		}
		m.Vals[i] = copyVal(val)
		return
	}
	if ip.logging {
		n := len(m.Keys)
		ip.mapUndo = append(ip.mapUndo, func() { m.Keys = m.Keys[:n]; m.Vals = m.Vals[:n] })
	}
	m.Keys = append(m.Keys[:len(m.Keys):len(m.Keys)], copyVal(key))
	m.Vals = append(m.Vals[:len(m.Vals):len(m.Vals)], copyVal(val))
}

func (ip *Interp) mapDelete(m *MapObj, key Value) {
	if m == nil {
		return
	}
	i := ip.mapFind(m, key, nil)
	if i < 0 {
		return
	}
	oldK, oldV := m.Keys, m.Vals
	if ip.logging {
		ip.mapUndo = append(ip.mapUndo, func() { m.Keys, m.Vals = oldK, oldV })
	}
	nk := make([]Value, 0, len(oldK)-1)
	nv := make([]Value, 0, len(oldV)-1)
	nk = append(append(nk, oldK[:i]...), oldK[i+1:]...)
	nv = append(append(nv, oldV[:i]...), oldV[i+1:]...)
	m.Keys, m.Vals = nk, nv
}

func (ip *Interp) sliceOp(fr *frame, instr *ssa.Slice) Value {
	x := fr.get(instr.X)
	var lo, hi, max *Term
	if instr.Low != nil {
		lo = ip.idxTerm(fr.get(instr.Low), instr.Low.Type())
	}
	if instr.High != nil {
		hi = ip.idxTerm(fr.get(instr.High), instr.High.Type())
	}
	if instr.Max != nil {
		max = ip.idxTerm(fr.get(instr.Max), instr.Max.Type())
	}
	return ip.sliceValue(x, lo, hi, max, instr)
}

func (ip *Interp) sliceValue(x Value, lo, hi, max *Term, site ssa.Instruction) Value {
	st := ip.st
	x = ip.concStrV(x)
	var base []Value
	var off, length, capacity int
	isStr := false
	var str Str
	var symLen *Term
	switch x := x.(type) {
	case Str:
		isStr = true
		str = x
		length, capacity = len(x.B), len(x.B)
	case Slice:
		base, off, length, capacity = x.Base, x.Off, x.Len, x.Cap
		symLen = x.SymLen
	case Ptr:
		if x.Cell == nil {
			ip.throw("nil", "nil pointer dereference (slice of array)", site)
		}
		a := (*x.Cell).(Array)
		base, off, length, capacity = []Value(a), 0, len(a), len(a)
		if base == nil {
			base = []Value{}
		}
	default:
		panic(fmt.Sprintf("slice of %T", x))
	}
	if symLen != nil {
		// slice with symbolic length (length = number of tracked cells)
		xs := x.(Slice)
		loT := st.Const(64, 0)
		if lo != nil {
			loT = lo
		}
		hiT := symLen
		if hi != nil {
			hiT = hi
		}
		var capT *Term
		if xs.SymCap != nil {
			capT = xs.SymCap
		} else {
			capT = st.Const(64, uint64(capacity))
		}
		maxT := capT
		if max != nil {
			maxT = max
		}
		ok := st.AndAll(st.Cmp(OpSLe, st.Const(64, 0), loT), st.Cmp(OpSLe, loT, hiT), st.Cmp(OpSLe, hiT, maxT), st.Cmp(OpSLe, maxT, capT))
		ip.guard(ok, "slice", "slice bounds out of range (symbolic length)", site)
		l := ip.concInt(loT, "slice low")
		if l > length {
			ip.oom("slice of big slice beyond tracked cells")
		}
		ns := Slice{Base: base, Off: off + l, Len: length - l, Cap: capacity - l}
		if xs.SymCap != nil {
			if max != nil {
				ip.oom("3-index slice of big slice")
			}
			ns.SymCap = st.Bin(OpSub, xs.SymCap, st.Const(64, uint64(l)))
		} else if max != nil {
			ns.Cap = ip.concInt(maxT, "slice max") - l
			if ns.Len > ns.Cap {
				ns.Len = ns.Cap
			}
		}
		if hiT.IsConst() {
			h := int(hiT.Val)
			if h-l > ns.Len {
				ip.oom("slice of big slice beyond tracked cells")
			}
			ns.Len = h - l
			if ns.SymCap != nil {
				// keep symbolic capacity but concrete length: not representable -> treat cap as tracked
				ns.SymCap = nil
			}
			return ns
		}
		ns.SymLen = st.Bin(OpSub, hiT, st.Const(64, uint64(l)))
		return ns
	}
	loT := st.Const(64, 0)
	if lo != nil {
		loT = lo
	}
	hiT := st.Const(64, uint64(length))
	if hi != nil {
		hiT = hi
	}
	maxT := st.Const(64, uint64(capacity))
	if max != nil {
		maxT = max
	}
	limit := capacity
	if isStr {
		limit = length
	}
	ok := st.AndAll(
		st.Cmp(OpSLe, st.Const(64, 0), loT),
		st.Cmp(OpSLe, loT, hiT),
		st.Cmp(OpSLe, hiT, maxT),
		st.Cmp(OpSLe, maxT, st.Const(64, uint64(limit))),
	)
	ip.guard(ok, "slice", fmt.Sprintf("slice bounds out of range [cap %d]", limit), site)
	l := ip.concInt(loT, "slice low")
	if !isStr && base != nil && !hiT.IsConst() && maxT.IsConst() {
		m := int(maxT.Val)
		return Slice{Base: base, Off: off + l, Len: m - l, Cap: m - l, SymLen: st.Bin(OpSub, hiT, st.Const(64, uint64(l)))}
	}
	h := ip.concInt(hiT, "slice high")
	m := ip.concInt(maxT, "slice max")
	if isStr {
		return Str{B: str.B[l:h]}
	}
	if base == nil {
		return Slice{}
	}
	return Slice{Base: base, Off: off + l, Len: h - l, Cap: m - l}
}

// ---- range ----

func (ip *Interp) rangeIter(x Value, t types.Type) Value {
	x = ip.concStrV(x)
	switch x := x.(type) {
	case *MapObj:
		it := &Iter{m: x}
		if x != nil {
			n := len(x.Keys)
			it.order = ip.mapOrder(n)
		}
		return it
	case Str:
		return &Iter{str: &x}
	}
	panic(fmt.Sprintf("range over %T", x))
}

func (ip *Interp) iterNext(it *Iter, site ssa.Instruction) Value {
	st := ip.st
	if it.str != nil {
		s := it.str.B
		if it.spos >= len(s) {
			return Tuple{st.F, st.Const(64, 0), st.Const(32, 0)}
		}
		pos := it.spos
		b0 := s[pos]
		if !b0.IsConst() {
			// fork: ASCII or not
			if ip.branch(st.Cmp(OpULt, b0, st.Const(8, 0x80))) {
				it.spos++
				return Tuple{st.T, st.Const(64, uint64(pos)), st.ZExt(b0, 32)}
			}
			// general case: run the real utf8.DecodeRuneInString symbolically
			up := ip.prog.ImportedPackage("unicode/utf8")
			if up == nil {
				ip.oom("range over string with symbolic non-ASCII byte (unicode/utf8 not loaded)")
			}
			res := ip.callSSA(nil, up.Func("DecodeRuneInString"), []Value{Str{B: s[pos:]}}, nil).(Tuple)
			size := ip.concInt(res[1].(*Term), "rune size")
			it.spos += size
			return Tuple{st.T, st.Const(64, uint64(pos)), res[0].(*Term)}
		}
		// decode with concrete prefix as far as needed
		var buf []byte
		for i := pos; i < len(s) && i < pos+4; i++ {
			if !s[i].IsConst() {
				if b0.Val < 0x80 {
					break
				}
				ip.oom("range over string with symbolic continuation byte")
			}
			buf = append(buf, byte(s[i].Val))
		}
		r, size := utf8.DecodeRune(buf)
		it.spos += size
		return Tuple{st.T, st.Const(64, uint64(pos)), st.Const(32, uint64(uint32(r)))}
	}
	if it.m == nil || it.pos >= len(it.order) {
		return Tuple{st.F, nil, nil}
	}
	// skip entries deleted during iteration is not modelled: maps must not shrink
	i := it.order[it.pos]
	it.pos++
	if i >= len(it.m.Keys) {
		ip.oom("map modified during iteration")
	}
	return Tuple{st.T, copyVal(it.m.Keys[i]), copyVal(it.m.Vals[i])}
}

// mapOrder returns the iteration order for a map with n entries.
func (ip *Interp) mapOrder(n int) []int {
	order := make([]int, n)
	for i := range order {
		order[i] = i
	}
	if ip.path != nil && ip.path.AllMapOrders && n > 1 && !ip.inInit {
		// choose a permutation by successive choices
		for i := 0; i < n-1; i++ {
			k := ip.choose(n-i, "map order")
			order[i], order[i+k] = order[i+k], order[i]
		}
	}
	return order
}

// concSlice turns a slice with symbolic length into an ordinary one by
// forking over its feasible lengths.
func (ip *Interp) concSlice(s Slice, what string) Slice {
	if s.SymLen == nil {
		return s
	}
	n := ip.concInt(s.SymLen, what+" length")
	if n > s.Len {
		ip.oom("%s: symbolic-length slice longer than its tracked cells", what)
	}
	c := s.Cap
	if s.SymCap != nil {
		c = s.Len
	}
	return Slice{Base: s.Base, Off: s.Off, Len: n, Cap: c}
}

// concStr turns a symbolic-length string view into an ordinary string.
func (ip *Interp) concStr(s Str) Str {
	if s.SymLen == nil {
		return s
	}
	n := ip.concInt(s.SymLen, "string length")
	if n > len(s.B) {
		ip.oom("symbolic-length string longer than its tracked bytes")
	}
	return Str{B: s.B[:n]}
}

func (ip *Interp) concStrV(v Value) Value {
	if s, ok := v.(Str); ok && s.SymLen != nil {
		return ip.concStr(s)
	}
	return v
}

var dummyCell Value

// symElemPtr builds a symbolic-index element pointer if all n elements are scalars.
func (ip *Interp) symElemPtr(idx *Term, base []Value, off, n int) (Ptr, bool) {
	idx = ip.simp(idx)
	if idx.IsConst() {
		return Ptr{}, false
	}
	for i := 0; i < n; i++ {
		if _, ok := base[off+i].(*Term); !ok {
			return Ptr{}, false
		}
	}
	return Ptr{Cell: &dummyCell, Base: base, Idx: off, SymIdx: idx, N: n}, true
}

package sym

import (
	"fmt"
	"math/rand"
	"sort"
	"strconv"
	"strings"
	"sync"
	"time"

	"golang.org/x/tools/go/ssa"
)

// Job is one path to explore: a forced decision prefix and a model of its
// path condition.
type Job struct {
	Harness string
	Params  map[string]int
	Forced  []uint64
	Model   Model
}

// Draw is one nondeterministic input drawn by the harness.
type Draw struct {
	Term *Term  // variable (nil if concrete choice)
	Val  uint64 // concrete value for choices
	W    int
	Kind string
}

// Obs is an observation recorded by the harness.
type Obs struct {
	Label string
	Kind  string // int, bytes, str, bool
	Terms []*Term
}

// Path is the per-path state.
type Path struct {
	Job          *Job
	PC           []*Term
	pos          int
	Taken        []uint64
	Model        Model
	Draws        []Draw
	Steps        int
	Budget       int
	BigLim       int
	AllMapOrders bool
	AllocHook    func(ip *Interp, site ssa.Instruction, bytes *Term)
	Observes     []Obs
	Reached      map[string]bool
	AllocTotal   *Term
	NAsserts     int
	NAssertsTriv int
	spawned      []*Job
	allocOn      bool
	RealFmt      bool
	naux         int
	facts        map[int]*Term // term id -> constant implied by the path condition
	simpMemo     map[int]*Term
	bounds       map[boundKey]*boundRec
}

type qentry struct {
	res Result
	m   Model
}

// Violation is a candidate property violation (before native replay).
type Violation struct {
	Harness string
	Params  map[string]int
	Label   string // assertion label, or "panic:<kind>", "budget"
	Site    string
	Msg     string
	Draws   []uint64
	Obs     []string
	Known   string // non-empty if matched a known finding
}

// Witness is a completed path's concrete representative.
type Witness struct {
	Harness string         `json:"harness"`
	Params  map[string]int `json:"params"`
	Draws   []uint64       `json:"draws"`
	Obs     []string       `json:"obs"`
	Outcome string         `json:"outcome"`
}

// KnownFinding matches violations that are recorded as known findings.
type KnownFinding struct {
	Property string
	Harness  string
	Label    string
	Site     string // substring match on site ("" = any)
	Note     string
}

// HarnessConfig describes how a harness is explored.
type HarnessConfig struct {
	Name         string // function name in the package
	Pkg          string // package path
	Params       map[string]int
	Budget       int
	BigLim       int
	AllMapOrders bool
	PanicsOK     bool // panics are not violations (rare)
	RealFmt      bool // fmt.Sprintf formats concrete simple arguments for real
	BudgetIsViolation bool
	MaxPaths     int
	AllocLimit   func(params map[string]int) (perSite uint64, total uint64) // nil = no monitor
	ExpectViolation bool // witness twin: must produce a violation labelled "reachable"
}

// Stats for a run.
type Stats struct {
	Paths         int
	Completed     int
	Infeasible    int
	OOM           int
	BudgetEnds    int
	Panics        int
	AssertEnds    int
	Decisions     int
	AssertQueries int
	AssertTrivial int
	AssertUnsat   int
	AssertSat     int
	AssertUnknown int
	BranchUnknown int
	Steps         int64
}

// Run is the shared state of one check run.
type Run struct {
	mu        sync.Mutex
	cond      *sync.Cond
	queue     []*Job
	active    int
	Stats     Stats
	Violations []Violation
	Witnesses []Witness
	Probes    []Witness // out-of-model paths: inputs so far, to be probed natively
	witSeen   int
	WitCap    int
	rng       *rand.Rand
	OOMMsgs   map[string]int
	UnknownMsgs map[string]int
	Funcs     map[string]bool
	Stubs     map[string]bool
	Known     []KnownFinding
	KnownHit  map[string]bool
	Configs   map[string]*HarnessConfig
	Solver    SolverStats
	stop      bool
	MaxPaths  int
	Reached   map[string]int
	perHarnessPaths map[string]int
	Start     time.Time
	interps   []*Interp
	FailFast  int
	nUnknownViol int
	firstViol time.Time
	Deadline  time.Time
	TimedOut  bool
}

// NewRun creates a run.
func NewRun(seed int64) *Run {
	r := &Run{OOMMsgs: map[string]int{}, UnknownMsgs: map[string]int{}, Funcs: map[string]bool{}, Stubs: map[string]bool{},
		KnownHit: map[string]bool{}, Configs: map[string]*HarnessConfig{}, Reached: map[string]int{}, perHarnessPaths: map[string]int{},
		WitCap: 64, rng: rand.New(rand.NewSource(seed)), Start: time.Now()}
	r.cond = sync.NewCond(&r.mu)
	return r
}

func cfgKey(h string, params map[string]int) string {
	var ks []string
	for k := range params {
		ks = append(ks, k)
	}
	sort.Strings(ks)
	var sb strings.Builder
	sb.WriteString(h)
	for _, k := range ks {
		fmt.Fprintf(&sb, ",%s=%d", k, params[k])
	}
	return sb.String()
}

// AddHarness registers a harness configuration and queues its root job.
func (r *Run) AddHarness(c *HarnessConfig) {
	r.mu.Lock()
	defer r.mu.Unlock()
	r.Configs[cfgKey(c.Name, c.Params)] = c
	r.queue = append(r.queue, &Job{Harness: c.Name, Params: c.Params, Model: Model{}})
}

func (r *Run) push(jobs []*Job) {
	if len(jobs) == 0 {
		return
	}
	r.mu.Lock()
	r.queue = append(r.queue, jobs...)
	r.mu.Unlock()
	r.cond.Broadcast()
}

func (r *Run) pop() *Job {
	r.mu.Lock()
	defer r.mu.Unlock()
	for {
		if r.stop {
			return nil
		}
		if len(r.queue) > 0 {
			j := r.queue[len(r.queue)-1]
			r.queue = r.queue[:len(r.queue)-1]
			r.active++
			return j
		}
		if r.active == 0 {
			r.cond.Broadcast()
			return nil
		}
		r.cond.Wait()
	}
}

func (r *Run) done() {
	r.mu.Lock()
	r.active--
	if r.active == 0 && len(r.queue) == 0 {
		r.cond.Broadcast()
	}
	r.mu.Unlock()
}

// ---- decisions ----

func (ip *Interp) forced() bool {
	p := ip.path
	return p.pos < len(p.Job.Forced)
}

func (ip *Interp) addPC(c *Term) {
	if c.IsTrue() {
		return
	}
	// split conjunctions for better slicing
	if c.Op == OpAnd {
		ip.addPC(c.Args[0])
		ip.addPC(c.Args[1])
		return
	}
	p := ip.path
	if x, isLower, k, signed, ok := boundOf(c); ok {
		if p.bounds == nil {
			p.bounds = map[boundKey]*boundRec{}
		}
		key := boundKey{x.ID, signed}
		b := p.bounds[key]
		if b == nil {
			b = &boundRec{w: x.W}
			p.bounds[key] = b
		}
		if isLower {
			if b.hasLo && lessEq(k, b.lo, x.W, signed) {
				return // implied by a stronger bound already in the path condition
			}
			if b.hasLo {
				p.PC[b.loIdx] = ip.st.T
			}
			b.hasLo, b.lo, b.loIdx = true, k, len(p.PC)
		} else {
			if b.hasHi && lessEq(b.hi, k, x.W, signed) {
				return
			}
			if b.hasHi {
				p.PC[b.hiIdx] = ip.st.T
			}
			b.hasHi, b.hi, b.hiIdx = true, k, len(p.PC)
		}
	}
	p.PC = append(p.PC, c)
	if p.facts == nil {
		p.facts = map[int]*Term{}
	}
	changed := false
	switch {
	case c.Op == OpEq && c.Args[1].IsConst() && !c.Args[0].IsConst():
		p.facts[c.Args[0].ID] = c.Args[1]
		changed = true
	case c.Op == OpEq && c.Args[0].IsConst() && !c.Args[1].IsConst():
		p.facts[c.Args[1].ID] = c.Args[0]
		changed = true
	}
	if c.Op == OpNot {
		p.facts[c.Args[0].ID] = ip.st.F
	} else {
		p.facts[c.ID] = ip.st.T
	}
	_ = changed
	p.simpMemo = nil
}

type boundKey struct {
	id     int
	signed bool
}

type boundRec struct {
	hasLo, hasHi bool
	lo, hi       uint64 // compared signed or unsigned per key
	loIdx, hiIdx int
	w            int
}

// boundOf recognises c as "x >= k" (isLower) or "x <= k" for a constant k.
func boundOf(c *Term) (x *Term, isLower bool, k uint64, signed bool, ok bool) {
	neg := false
	if c.Op == OpNot {
		neg = true
		c = c.Args[0]
	}
	var strict bool
	switch c.Op {
	case OpSLt:
		signed, strict = true, true
	case OpSLe:
		signed, strict = true, false
	case OpULt:
		signed, strict = false, true
	case OpULe:
		signed, strict = false, false
	default:
		return
	}
	a, b := c.Args[0], c.Args[1]
	w := a.W
	var maxV, minV uint64
	if signed {
		maxV, minV = mask(w)>>1, (mask(w)>>1)+1
	} else {
		maxV, minV = mask(w), 0
	}
	switch {
	case b.IsConst() && !a.IsConst():
		// a < k / a <= k ; negated: a >= k / a > k
		x, k = a, b.Val
		if !neg {
			isLower = false
			if strict {
				if k == minV {
					return nil, false, 0, signed, false
				}
				k = (k - 1) & mask(w)
			}
		} else {
			isLower = true
			if !strict {
				if k == maxV {
					return nil, false, 0, signed, false
				}
				k = (k + 1) & mask(w)
			}
		}
		return x, isLower, k, signed, true
	case a.IsConst() && !b.IsConst():
		// k < b / k <= b ; negated: b <= k / b < k
		x, k = b, a.Val
		if !neg {
			isLower = true
			if strict {
				if k == maxV {
					return nil, false, 0, signed, false
				}
				k = (k + 1) & mask(w)
			}
		} else {
			isLower = false
			if !strict {
				if k == minV {
					return nil, false, 0, signed, false
				}
				k = (k - 1) & mask(w)
			}
		}
		return x, isLower, k, signed, true
	}
	return
}

func lessEq(a, b uint64, w int, signed bool) bool {
	if signed {
		return sext(a, w) <= sext(b, w)
	}
	return a <= b
}

// decideByBounds answers a bound condition from the recorded bounds.
func (ip *Interp) decideByBounds(c *Term) (val bool, known bool) {
	p := ip.path
	if p == nil || len(p.bounds) == 0 {
		return false, false
	}
	x, isLower, k, signed, ok := boundOf(c)
	if !ok {
		return false, false
	}
	b := p.bounds[boundKey{x.ID, signed}]
	if b == nil {
		return false, false
	}
	w := x.W
	if isLower { // x >= k ?
		if b.hasLo && lessEq(k, b.lo, w, signed) {
			return true, true
		}
		if b.hasHi && !lessEq(k, b.hi, w, signed) {
			return false, true
		}
	} else { // x <= k ?
		if b.hasHi && lessEq(b.hi, k, w, signed) {
			return true, true
		}
		if b.hasLo && !lessEq(b.lo, k, w, signed) {
			return false, true
		}
	}
	return false, false
}

// simp rewrites t using the constants implied by the path condition.
func (ip *Interp) simp(t *Term) *Term {
	p := ip.path
	if p == nil || len(p.facts) == 0 || t.IsConst() {
		return t
	}
	if p.simpMemo == nil {
		p.simpMemo = map[int]*Term{}
	}
	return ip.simpRec(t)
}

func (ip *Interp) simpRec(t *Term) *Term {
	if t.IsConst() {
		return t
	}
	p := ip.path
	if r, ok := p.simpMemo[t.ID]; ok {
		return r
	}
	if k, ok := p.facts[t.ID]; ok {
		p.simpMemo[t.ID] = k
		return k
	}
	r := t
	if len(t.Args) > 0 {
		args := make([]*Term, len(t.Args))
		same := true
		for i, a := range t.Args {
			args[i] = ip.simpRec(a)
			if args[i] != a {
				same = false
			}
		}
		if !same {
			r = ip.st.Rebuild(t, args)
		}
	}
	p.simpMemo[t.ID] = r
	return r
}

// query decides PC ∧ extra with independence slicing. On Sat the returned
// model is a full model (path model overridden by the solver's values).
func (ip *Interp) query(extra *Term) (Result, Model) {
	p := ip.path
	st := ip.st
	if extra.IsFalse() {
		return Unsat, nil
	}
	vars := append([]uint64(nil), st.varsOf(extra)...)
	included := make([]bool, len(p.PC))
	asserts := []*Term{extra}
	for changed := true; changed; {
		changed = false
		for i, c := range p.PC {
			if included[i] {
				continue
			}
			cv := st.varsOf(c)
			if bitsIntersect(vars, cv) {
				included[i] = true
				vars = bitsOr(vars, cv)
				asserts = append(asserts, c)
				changed = true
			}
		}
	}
	ids := make([]int, len(asserts))
	for i, a := range asserts {
		ids[i] = a.ID
	}
	sort.Ints(ids)
	var kb strings.Builder
	for _, id := range ids {
		kb.WriteString(strconv.Itoa(id))
		kb.WriteByte(',')
	}
	key := kb.String()
	var res Result
	var m Model
	if ce, ok := ip.qcache[key]; ok {
		res, m = ce.res, ce.m
		ip.qhits++
	} else {
		if ip.run.stopped() {
			// the run has been stopped (fail-fast, path cap or deadline): do not
			// start further solver work on this path
			panic(pathEnd{Kind: "stop", Msg: "run stopped"})
		}
		res, m = ip.sv.Check(asserts)
		if res != Unknown {
			if ip.qcache == nil || len(ip.qcache) > 200000 {
				ip.qcache = map[string]qentry{}
			}
			ip.qcache[key] = qentry{res, m}
		}
	}
	if res != Sat {
		return res, nil
	}
	merged := make(Model, len(p.Model)+len(m))
	for k, v := range p.Model {
		merged[k] = v
	}
	for k, v := range m {
		merged[k] = v
	}
	// validate the model against the whole PC and extra
	vals := st.EvalMany(append(append([]*Term(nil), p.PC...), extra), merged)
	for i, v := range vals {
		if v != 1 {
			ip.run.noteUnknown(fmt.Sprintf("model validation failed on conjunct %d of %d", i, len(vals)))
			return Unknown, nil
		}
	}
	return Sat, merged
}

func (r *Run) noteUnknown(msg string) {
	r.mu.Lock()
	r.UnknownMsgs[msg]++
	r.mu.Unlock()
}

func (ip *Interp) spawn(decision uint64, m Model) {
	p := ip.path
	f := make([]uint64, len(p.Taken)+1)
	copy(f, p.Taken)
	f[len(p.Taken)] = decision
	p.spawned = append(p.spawned, &Job{Harness: p.Job.Harness, Params: p.Job.Params, Forced: f, Model: m})
}

// branch decides a symbolic condition, forking if both sides are feasible.
func (ip *Interp) branch(c *Term) bool {
	if c.IsConst() {
		return c.Val == 1
	}
	if ip.inInit || ip.path == nil {
		ip.oom("symbolic branch outside a path")
	}
	c = ip.simp(c)
	if c.IsConst() {
		return c.Val == 1
	}
	if v, known := ip.decideByBounds(c); known {
		return v
	}
	p := ip.path
	st := ip.st
	if ip.forced() {
		d := p.Job.Forced[p.pos]
		p.pos++
		p.Taken = append(p.Taken, d)
		if d == 1 {
			ip.addPC(c)
		} else {
			ip.addPC(st.Not(c))
		}
		return d == 1
	}
	mv := st.Eval(c, p.Model) == 1
	other := c
	if mv {
		other = st.Not(c)
	}
	res, m := ip.query(other)
	switch res {
	case Sat:
		d := uint64(1)
		if mv {
			d = 0
		}
		ip.spawn(d, m)
	case Unknown:
		ip.run.mu.Lock()
		ip.run.Stats.BranchUnknown++
		ip.run.UnknownMsgs["branch: "+ip.sv.LastError]++
		ip.run.mu.Unlock()
	}
	p.pos++
	if mv {
		p.Taken = append(p.Taken, 1)
		ip.addPC(c)
	} else {
		p.Taken = append(p.Taken, 0)
		ip.addPC(st.Not(c))
	}
	return mv
}

// choose makes an n-way nondeterministic concrete choice.
func (ip *Interp) choose(n int, what string) int {
	if n <= 1 {
		return 0
	}
	if ip.inInit || ip.path == nil {
		ip.oom("choice outside a path")
	}
	p := ip.path
	if ip.forced() {
		d := p.Job.Forced[p.pos]
		p.pos++
		p.Taken = append(p.Taken, d)
		return int(d)
	}
	for i := 1; i < n; i++ {
		ip.spawn(uint64(i), p.Model)
	}
	p.pos++
	p.Taken = append(p.Taken, 0)
	return 0
}

const maxConcretize = 300

// concretize forks over every feasible value of t and returns the chosen one.
func (ip *Interp) concretize(t *Term, what string) uint64 {
	if t.IsConst() {
		return t.Val
	}
	if ip.inInit || ip.path == nil {
		ip.oom("concretize outside a path")
	}
	t = ip.simp(t)
	if t.IsConst() {
		return t.Val
	}
	p := ip.path
	st := ip.st
	if ip.forced() {
		d := p.Job.Forced[p.pos]
		p.pos++
		p.Taken = append(p.Taken, d)
		ip.addPC(st.Eq(t, st.Const(t.W, d)))
		return d
	}
	v0 := st.Eval(t, p.Model)
	excl := st.Not(st.Eq(t, st.Const(t.W, v0)))
	for n := 0; ; n++ {
		if n > maxConcretize {
			ip.oom("more than %d feasible values for %s", maxConcretize, what)
		}
		res, m := ip.query(excl)
		if res == Unknown {
			ip.run.mu.Lock()
			ip.run.Stats.BranchUnknown++
			ip.run.UnknownMsgs["concretize: "+ip.sv.LastError]++
			ip.run.mu.Unlock()
			break
		}
		if res == Unsat {
			break
		}
		v := st.Eval(t, m)
		ip.spawn(v, m)
		excl = st.And(excl, st.Not(st.Eq(t, st.Const(t.W, v))))
	}
	p.pos++
	p.Taken = append(p.Taken, v0)
	ip.addPC(st.Eq(t, st.Const(t.W, v0)))
	return v0
}

// assume adds c to the path condition, ending the path if infeasible.
func (ip *Interp) assume(c *Term) {
	c = ip.simp(c)
	if c.IsTrue() {
		return
	}
	if c.IsFalse() {
		panic(pathEnd{Kind: "infeasible", Msg: "assume(false)"})
	}
	p := ip.path
	st := ip.st
	if st.Eval(c, p.Model) == 1 {
		ip.addPC(c)
		return
	}
	if ip.forced() {
		panic(fmt.Sprintf("engine bug: forced-prefix model violates an assumption"))
	}
	res, m := ip.query(c)
	switch res {
	case Sat:
		p.Model = m
		ip.addPC(c)
	case Unsat:
		panic(pathEnd{Kind: "infeasible", Msg: "assumption infeasible"})
	default:
		ip.run.mu.Lock()
		ip.run.Stats.BranchUnknown++
		ip.run.UnknownMsgs["assume: "+ip.sv.LastError]++
		ip.run.mu.Unlock()
		panic(pathEnd{Kind: "infeasible", Msg: "assumption unknown"})
	}
}

// drawsUnder evaluates the draw vector under a model.
func (ip *Interp) drawsUnder(m Model) []uint64 {
	p := ip.path
	out := make([]uint64, len(p.Draws))
	for i, d := range p.Draws {
		if d.Term != nil {
			out[i] = ip.st.Eval(d.Term, m)
		} else {
			out[i] = d.Val
		}
	}
	return out
}

func (ip *Interp) obsUnder(m Model) []string {
	p := ip.path
	var out []string
	for _, o := range p.Observes {
		vals := ip.st.EvalMany(o.Terms, m)
		out = append(out, renderObs(o.Label, o.Kind, vals, o.Terms))
	}
	return out
}

func renderObs(label, kind string, vals []uint64, terms []*Term) string {
	switch kind {
	case "int":
		return fmt.Sprintf("%s=%d", label, sext(vals[0], terms[0].W))
	case "bool":
		return fmt.Sprintf("%s=%v", label, vals[0] == 1)
	case "bytes", "str":
		var sb strings.Builder
		sb.WriteString(label)
		sb.WriteString("=")
		if kind == "str" {
			sb.WriteString("s:")
		}
		for _, v := range vals {
			fmt.Fprintf(&sb, "%02x", v)
		}
		return sb.String()
	case "nil":
		return label + "=nil"
	}
	return label + "=?"
}

// assertCond checks a harness assertion.
// stackOf renders the innermost frames of the call chain (for known-finding
// site matching and diagnostics).
func stackOf(fr *frame, max int) string {
	var parts []string
	for f := fr; f != nil && len(parts) < max; f = f.caller {
		parts = append(parts, f.fn.String())
	}
	return strings.Join(parts, "<")
}

func (ip *Interp) assertCond(c *Term, label string) {
	ip.assertCondAt(c, label, nil)
}

func (ip *Interp) assertCondAt(c *Term, label string, fr *frame) {
	p := ip.path
	st := ip.st
	if ip.forced() {
		// already decided by the ancestor path
		if c.IsFalse() {
			panic(pathEnd{Kind: "stop", Msg: "assert already reported"})
		}
		ip.addPCAssumed(c)
		return
	}
	p.NAsserts++
	c = ip.simp(c)
	if c.IsTrue() {
		p.NAssertsTriv++
		return
	}
	res, m := ip.query(st.Not(c))
	r := ip.run
	switch res {
	case Unsat:
		r.mu.Lock()
		r.Stats.AssertUnsat++
		r.mu.Unlock()
		ip.addPC(c)
	case Sat:
		r.mu.Lock()
		r.Stats.AssertSat++
		r.mu.Unlock()
		v := Violation{Harness: p.Job.Harness, Params: p.Job.Params, Label: label, Site: "assert:" + label + " stack=" + stackOf(fr, 10),
			Draws: ip.drawsUnder(m), Obs: ip.obsUnder(m)}
		known := ip.run.recordViolation(&v)
		if !known {
			panic(pathEnd{Kind: "assert", Msg: label})
		}
		// known finding: keep exploring under the assumption that it held
		ip.assume(c)
	default:
		r.mu.Lock()
		r.Stats.AssertUnknown++
		r.UnknownMsgs["assert "+label+": "+ip.sv.LastError]++
		r.mu.Unlock()
		ip.addPC(c)
	}
}

// addPCAssumed adds c (an assertion already proven or reported upstream).
func (ip *Interp) addPCAssumed(c *Term) {
	if ip.st.Eval(c, ip.path.Model) == 1 {
		ip.addPC(c)
		return
	}
	// the forced model came from below a known-finding assume; fall back
	ip.addPC(c)
}

func harnessMatch(pat, h string) bool {
	if strings.HasSuffix(pat, "*") {
		return strings.HasPrefix(h, strings.TrimSuffix(pat, "*"))
	}
	return pat == h
}

// recordViolation stores v; returns true if it matches a known finding.
func (r *Run) recordViolation(v *Violation) bool {
	r.mu.Lock()
	defer r.mu.Unlock()
	for _, k := range r.Known {
		if harnessMatch(k.Harness, v.Harness) && k.Label == v.Label && (k.Site == "" || strings.Contains(v.Site, k.Site)) {
			v.Known = fmt.Sprintf("property=%s %s", k.Property, k.Note)
			key := v.Known
			if !r.KnownHit[key] {
				r.KnownHit[key] = true
				r.Violations = append(r.Violations, *v)
			}
			return true
		}
	}
	// keep at most a few per (harness,label,site)
	n := 0
	for _, o := range r.Violations {
		if o.Harness == v.Harness && o.Label == v.Label && o.Site == v.Site {
			n++
		}
	}
	if n < 3 {
		r.Violations = append(r.Violations, *v)
	}
	// fail fast: once enough distinct unexplained candidates exist, stop
	// exploring (the run will be FAIL or inconclusive, never PASS)
	cfg := r.Configs[cfgKey(v.Harness, v.Params)]
	if (cfg == nil || !cfg.ExpectViolation) && r.FailFast > 0 {
		r.nUnknownViol++
		if r.firstViol.IsZero() {
			r.firstViol = time.Now()
		}
		if (r.nUnknownViol >= r.FailFast || time.Since(r.firstViol) > 90*time.Second) && !r.stop {
			r.stop = true
			r.UnknownMsgs["exploration stopped early after many violation candidates"]++
		}
	}
	return false
}

// ---- running a path ----

// RunJob explores one path.
func (ip *Interp) RunJob(job *Job) {
	r := ip.run
	cfg := r.Configs[cfgKey(job.Harness, job.Params)]
	fn := ip.findHarness(cfg)
	p := &Path{Job: job, Model: job.Model, Budget: cfg.Budget, BigLim: cfg.BigLim, AllMapOrders: cfg.AllMapOrders, Reached: map[string]bool{}, RealFmt: cfg.RealFmt}
	if p.Budget == 0 {
		p.Budget = 2000000
	}
	if p.BigLim == 0 {
		p.BigLim = 16
	}
	if p.Model == nil {
		p.Model = Model{}
	}
	if cfg.AllocLimit != nil {
		ip.installAllocMonitor(p, cfg)
	}
	ip.path = p
	ip.logging = true
	ip.undo = ip.undo[:0]
	ip.mapUndo = ip.mapUndo[:0]
	ip.pools = map[*Value][]Value{}
	ip.depth = 0
	outcome := "end"
	var msg, site string
	func() {
		defer func() {
			if e := recover(); e != nil {
				switch e := e.(type) {
				case pathEnd:
					outcome, msg = e.Kind, e.Msg
				case goPanic:
					outcome, msg, site = "panic:"+e.Kind, describe(e.V), e.Site
				default:
					if re, ok := e.(interface{ Error() string }); ok && strings.Contains(re.Error(), "sym.Poison") {
						outcome, msg = "oom", "use of a value from an unmodelled package initialiser at "+ip.Where()
						return
					}
					if _, ok := e.(interface{ RuntimeError() }); ok {
						outcome, msg = "oom", fmt.Sprintf("engine cannot interpret (%v) at %s", e, ip.Where())
						return
					}
					panic(fmt.Sprintf("engine failure: %v\n  while interpreting %s", e, ip.Where()))
				}
			}
		}()
		ip.callSSA(nil, fn, nil, nil)
	}()
	// roll back heap
	for i := len(ip.undo) - 1; i >= 0; i-- {
		*ip.undo[i].cell = ip.undo[i].old
	}
	for i := len(ip.mapUndo) - 1; i >= 0; i-- {
		ip.mapUndo[i]()
	}
	ip.undo = ip.undo[:0]
	ip.mapUndo = ip.mapUndo[:0]
	ip.logging = false

	var viol *Violation
	switch {
	case strings.HasPrefix(outcome, "panic:") && !cfg.PanicsOK:
		viol = &Violation{Harness: job.Harness, Params: job.Params, Label: outcome, Site: site, Msg: msg,
			Draws: ip.drawsUnder(p.Model), Obs: ip.obsUnder(p.Model)}
	case outcome == "budget" && cfg.BudgetIsViolation:
		viol = &Violation{Harness: job.Harness, Params: job.Params, Label: "budget", Site: "budget", Msg: msg,
			Draws: ip.drawsUnder(p.Model), Obs: ip.obsUnder(p.Model)}
	}
	if viol != nil {
		r.recordViolation(viol)
	}
	wit := Witness{Harness: job.Harness, Params: job.Params, Draws: ip.drawsUnder(p.Model), Obs: ip.obsUnder(p.Model), Outcome: outcome}

	r.mu.Lock()
	r.Stats.Paths++
	r.perHarnessPaths[job.Harness]++
	r.Stats.Decisions += len(p.Taken)
	r.Stats.Steps += int64(p.Steps)
	r.Stats.AssertQueries += p.NAsserts
	r.Stats.AssertTrivial += p.NAssertsTriv
	for k := range p.Reached {
		r.Reached[job.Harness+":"+k]++
	}
	switch {
	case outcome == "end":
		r.Stats.Completed++
	case outcome == "infeasible" || outcome == "stop":
		r.Stats.Infeasible++
	case outcome == "oom":
		r.Stats.OOM++
		r.OOMMsgs[msg]++
		if len(r.Probes) < 32 && !cfg.ExpectViolation {
			r.Probes = append(r.Probes, wit)
		}
	case outcome == "budget":
		r.Stats.BudgetEnds++
		if !cfg.BudgetIsViolation {
			r.UnknownMsgs["budget: "+msg]++
		}
	case outcome == "assert":
		r.Stats.AssertEnds++
	default:
		r.Stats.Panics++
	}
	if outcome == "end" || strings.HasPrefix(outcome, "panic:") {
		r.witSeen++
		if len(r.Witnesses) < r.WitCap {
			r.Witnesses = append(r.Witnesses, wit)
		} else if k := r.rng.Intn(r.witSeen); k < r.WitCap {
			r.Witnesses[k] = wit
		}
	}
	if r.FailFast > 0 && !r.firstViol.IsZero() && time.Since(r.firstViol) > 90*time.Second && !r.stop {
		r.stop = true
		r.UnknownMsgs["exploration stopped 90 s after the first violation candidate"]++
	}
	if r.MaxPaths > 0 && r.Stats.Paths >= r.MaxPaths {
		r.stop = true
		r.UnknownMsgs[fmt.Sprintf("path cap %d reached", r.MaxPaths)]++
	}
	if !r.Deadline.IsZero() && time.Now().After(r.Deadline) {
		r.stop = true
		r.TimedOut = true
		r.UnknownMsgs["wall-clock deadline reached with unexplored paths"]++
	}
	r.mu.Unlock()
	if outcome != "oom" || true {
		r.push(p.spawned)
	}
	ip.path = nil
}

func (r *Run) stopped() bool {
	r.mu.Lock()
	defer r.mu.Unlock()
	if !r.stop {
		if r.FailFast > 0 && !r.firstViol.IsZero() && time.Since(r.firstViol) > 90*time.Second {
			r.stop = true
			r.UnknownMsgs["exploration stopped 90 s after the first violation candidate"]++
		} else if !r.Deadline.IsZero() && time.Now().After(r.Deadline) {
			r.stop = true
			r.TimedOut = true
			r.UnknownMsgs["wall-clock deadline reached with unexplored paths"]++
		}
	}
	return r.stop
}

func (ip *Interp) findHarness(cfg *HarnessConfig) *ssa.Function {
	for _, pkg := range ip.prog.AllPackages() {
		if pkg.Pkg.Path() == cfg.Pkg {
			if f := pkg.Func(cfg.Name); f != nil {
				return f
			}
		}
	}
	panic(fmt.Sprintf("harness %s.%s not found", cfg.Pkg, cfg.Name))
}

// Worker runs jobs until the queue drains.
func (ip *Interp) Worker() {
	r := ip.run
	r.mu.Lock()
	r.interps = append(r.interps, ip)
	r.mu.Unlock()
	for {
		j := r.pop()
		if j == nil {
			break
		}
		func() {
			defer r.done()
			ip.RunJob(j)
		}()
	}
	r.mu.Lock()
	for f := range ip.funcsHit {
		r.Funcs[f.String()] = true
	}
	for s := range ip.stubsHit {
		r.Stubs[s] = true
	}
	s := ip.sv.Stats
	r.Solver.Queries += s.Queries
	r.Solver.Sat += s.Sat
	r.Solver.Unsat += s.Unsat
	r.Solver.Unknown += s.Unknown
	r.Solver.Errors += s.Errors
	r.Solver.Time += s.Time
	r.Solver.Restarts += s.Restarts
	r.mu.Unlock()
}

// Progress returns a one-line progress summary.
func (r *Run) Progress() string {
	r.mu.Lock()
	defer r.mu.Unlock()
	return fmt.Sprintf("[%.0fs] paths=%d completed=%d infeasible=%d oom=%d budget=%d panics=%d queue=%d active=%d viol=%d steps=%d",
		time.Since(r.Start).Seconds(), r.Stats.Paths, r.Stats.Completed, r.Stats.Infeasible, r.Stats.OOM, r.Stats.BudgetEnds, r.Stats.Panics,
		len(r.queue), r.active, len(r.Violations), r.Stats.Steps)
}

// Debug describes what every worker is doing (racy; diagnostics only).
func (r *Run) Debug() string {
	r.mu.Lock()
	defer r.mu.Unlock()
	var sb strings.Builder
	for i, ip := range r.interps {
		p := ip.path
		if p == nil {
			continue
		}
		fn := ip.curFn
		name := "?"
		if fn != nil {
			name = fn.String()
		}
		fmt.Fprintf(&sb, "  w%d: %s%v steps=%d pc=%d insolver=%v in %s\n", i, p.Job.Harness, p.Job.Params, p.Steps, len(p.PC), ip.sv.busy, name)
	}
	return sb.String()
}

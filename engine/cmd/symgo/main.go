// Command symgo runs the solver-based checks of /verif against /repo.
package main

import (
	"encoding/json"
	"flag"
	"fmt"
	"os"
	"os/signal"
	"syscall"
	"path/filepath"
	"runtime"
	"sort"
	"strconv"
	"strings"
	"sync"
	"time"

	"verif/engine/sym"
)

var (
	verifDir = envOr("VERIF_DIR", "/verif")
	repoDir  = envOr("VERIF_REPO", "/repo")
)

func envOr(k, d string) string {
	if v := os.Getenv(k); v != "" {
		return v
	}
	return d
}

// PkgDef is a package that receives harness files.
type PkgDef struct {
	Path  string   // import path
	Dir   string   // directory relative to the repo
	Name  string   // package name
	Files []string // harness files relative to /verif/harness
	// Rewrites are textual substitutions applied to the CURRENT content of
	// files of /repo (regenerated on every run) so that a harness can stand
	// in for an environment function; used identically for the symbolic run
	// and the native replay. A pattern that is not found exactly Count times
	// makes the run inconclusive.
	Rewrites []Rewrite
	// Raw packages get no support/test templates: their overlay comes from Prepare.
	Raw bool
}

// Rewrite is one textual substitution in a file of the package.
type Rewrite struct {
	File  string // relative to the package dir
	Old   string
	New   string
	Count int
}

// CheckDef defines one property check.
type CheckDef struct {
	ID        string
	Pkgs      []PkgDef
	Harnesses func(tier string) []*sym.HarnessConfig
	Bounds    func(tier string) map[string]interface{}
	Assume    []string
	Level     string
	Prepare   func(c *CheckDef, tier string) (extraOverlay map[string][]byte, extraPatterns []string, cleanup func(), err error)
	Deadline  func(tier string) time.Duration
	Gen       *GenInfo
}

func main() {
	if len(os.Args) < 2 {
		usage()
	}
	// a terminated run (timeout, ^C) still removes its scratch directories
	sigc := make(chan os.Signal, 1)
	signal.Notify(sigc, syscall.SIGTERM, syscall.SIGINT)
	go func() {
		<-sigc
		sym.CleanupTemps()
		os.Exit(143)
	}()
	switch os.Args[1] {
	case "check":
		os.Exit(cmdCheck(os.Args[2:]))
	case "replay":
		os.Exit(cmdReplay(os.Args[2:]))
	case "list":
		for _, c := range allChecks() {
			fmt.Println(c.ID)
		}
	default:
		usage()
	}
}

func usage() {
	fmt.Fprintln(os.Stderr, "usage: symgo check <id> [--tier quick|thorough] | symgo replay <file> | symgo list")
	os.Exit(2)
}

func findCheck(id string) *CheckDef {
	for _, c := range allChecks() {
		if c.ID == id {
			return c
		}
	}
	return nil
}

type replayFile struct {
	Property string         `json:"property"`
	Harness  string         `json:"harness"`
	Params   map[string]int `json:"params"`
	Draws    []uint64       `json:"draws"`
	Label    string         `json:"label"`
	Site     string         `json:"site"`
	Msg      string         `json:"msg"`
	Obs      []string       `json:"predicted_obs"`
	Native   string         `json:"native_outcome"`
	NativeMsg string        `json:"native_msg"`
}

func loadKnown() []sym.KnownFinding {
	data, err := os.ReadFile(filepath.Join(verifDir, "known_findings.txt"))
	if err != nil {
		return nil
	}
	var out []sym.KnownFinding
	for _, line := range strings.Split(string(data), "\n") {
		line = strings.TrimSpace(line)
		if !strings.HasPrefix(line, "known:") {
			continue
		}
		k := sym.KnownFinding{}
		rest := strings.TrimSpace(strings.TrimPrefix(line, "known:"))
		if i := strings.Index(rest, " note="); i >= 0 {
			k.Note = rest[i+6:]
			rest = rest[:i]
		}
		for _, f := range strings.Fields(rest) {
			kv := strings.SplitN(f, "=", 2)
			if len(kv) != 2 {
				continue
			}
			switch kv[0] {
			case "property":
				k.Property = kv[1]
			case "harness":
				k.Harness = kv[1]
			case "label":
				k.Label = kv[1]
			case "site":
				k.Site = kv[1]
			}
		}
		out = append(out, k)
	}
	return out
}

func pkgOfHarness(c *CheckDef, hc *sym.HarnessConfig) *PkgDef {
	for i := range c.Pkgs {
		if c.Pkgs[i].Path == hc.Pkg {
			return &c.Pkgs[i]
		}
	}
	return nil
}

func buildOverlay(c *CheckDef, withTest bool, only *PkgDef) (map[string][]byte, error) {
	ov := map[string][]byte{}
	for i := range c.Pkgs {
		p := &c.Pkgs[i]
		if p.Raw {
			continue
		}
		var files []string
		for _, f := range p.Files {
			files = append(files, filepath.Join(verifDir, "harness", f))
		}
		m, err := sym.HarnessFiles(verifDir, repoDir, p.Dir, p.Name, files, withTest && (only == nil || p == only))
		if err != nil {
			return nil, err
		}
		for k, v := range m {
			ov[k] = v
		}
		for _, rw := range p.Rewrites {
			fp := filepath.Join(repoDir, p.Dir, rw.File)
			cur, ok := ov[fp]
			if !ok {
				cur, err = os.ReadFile(fp)
				if err != nil {
					return nil, err
				}
			}
			if n := strings.Count(string(cur), rw.Old); n != rw.Count {
				return nil, fmt.Errorf("rewrite of %s: pattern %q found %d times, want %d (the source changed shape)", fp, rw.Old, n, rw.Count)
			}
			ov[fp] = []byte(strings.ReplaceAll(string(cur), rw.Old, rw.New))
		}
	}
	return ov, nil
}

var paramFilter string

func paramOK(hc *sym.HarnessConfig) bool {
	if paramFilter == "" {
		return true
	}
	for _, f := range strings.Split(paramFilter, ",") {
		kv := strings.SplitN(f, "=", 2)
		v, _ := strconv.Atoi(kv[1])
		if hc.Params[kv[0]] != v {
			return false
		}
	}
	return true
}

func cmdCheck(args []string) int {
	fs := flag.NewFlagSet("check", flag.ExitOnError)
	tier := fs.String("tier", envOr("VERIF_TIER", "quick"), "quick or thorough")
	workers := fs.Int("workers", runtime.NumCPU(), "worker count")
	only := fs.String("only", "", "run only harnesses whose name contains this")
	solver := fs.String("solver", "z3-new", "z3-new (5.1.0), z3 (4.8.12) or cvc5")
	verbose := fs.Bool("v", false, "verbose")
	fs.StringVar(&paramFilter, "param", "", "run only harness configs with this param, e.g. n=3")
	if len(args) < 1 {
		usage()
	}
	id := args[0]
	fs.Parse(args[1:])
	c := findCheck(id)
	if c == nil {
		fmt.Fprintf(os.Stderr, "unknown check %s\n", id)
		return 2
	}
	seed := int64(0)
	if s := os.Getenv("VERIF_SEED"); s != "" {
		seed, _ = strconv.ParseInt(s, 10, 64)
	}
	t0 := time.Now()
	res := runCheck(c, *tier, *workers, *only, *solver, seed, *verbose)
	res.Wall = time.Since(t0).Seconds()
	if *only == "" {
		writeEvidence(c, *tier, seed, res)
	}
	if *verbose {
		for _, sm := range res.Samples {
			b, _ := json.Marshal(sm)
			fmt.Fprintln(os.Stderr, "sample:", string(b))
		}
	}
	for _, l := range res.KnownLines {
		fmt.Println("KNOWN-FINDING: " + l)
	}
	for _, v := range res.Confirmed {
		fmt.Printf("VIOLATION property=%s replay=%s\n", c.ID, v)
	}
	if len(res.Confirmed) > 0 {
		fmt.Printf("%s: FAIL (%d violation(s)) paths=%d wall=%.1fs\n", c.ID, len(res.Confirmed), res.Stats.Paths, res.Wall)
		return 1
	}
	if len(res.Inconclusive) > 0 {
		fmt.Printf("%s: INCONCLUSIVE paths=%d wall=%.1fs\n", c.ID, res.Stats.Paths, res.Wall)
		for _, m := range res.Inconclusive {
			fmt.Println("  reason: " + m)
		}
		return 3
	}
	for _, m := range res.Incomplete {
		fmt.Println("INCOMPLETE (reduced bound, see evidence): " + m)
	}
	fmt.Printf("%s: PASS tier=%s paths=%d completed=%d assert-queries=%d (unsat %d, trivial %d) solver-queries=%d solver=%.1fs witnesses-replayed=%d wall=%.1fs\n",
		c.ID, *tier, res.Stats.Paths, res.Stats.Completed, res.Stats.AssertQueries, res.Stats.AssertUnsat, res.Stats.AssertTrivial,
		res.Solver.Queries, res.Solver.Time.Seconds(), res.WitnessesOK, res.Wall)
	return 0
}

// Result is the outcome of a check run.
type Result struct {
	Stats        sym.Stats
	Solver       sym.SolverStats
	Confirmed    []string // replay file paths of confirmed violations
	KnownLines   []string
	Inconclusive []string
	Incomplete   []string // deadline reached: what this run did not cover
	WitnessesOK  int
	Samples      []interface{}
	Funcs        []string
	Stubs        []string
	Reached      map[string]int
	Wall         float64
	Harnesses    []string
	InitPoison   []string
	SolverName   string
	ExpectedViolations int
}

func runCheck(c *CheckDef, tier string, workers int, only, solver string, seed int64, verbose bool) *Result {
	res := &Result{SolverName: solver + " -in (one process per worker)"}
	incon := func(f string, a ...interface{}) { res.Inconclusive = append(res.Inconclusive, fmt.Sprintf(f, a...)) }

	var cleanup func()
	var prepOverlay map[string][]byte
	var prepPatterns []string
	if c.Prepare != nil {
		extra, extraPat, cl, err := c.Prepare(c, tier)
		if err != nil {
			incon("prepare: %v", err)
			return res
		}
		cleanup, prepOverlay, prepPatterns = cl, extra, extraPat
	}
	overlay, err := buildOverlay(c, false, nil)
	if err != nil {
		incon("overlay: %v", err)
		if cleanup != nil {
			cleanup()
		}
		return res
	}
	var patterns []string
	for _, p := range c.Pkgs {
		if !p.Raw {
			patterns = append(patterns, "./"+p.Dir)
		}
	}
	for k, v := range prepOverlay {
		overlay[k] = v
	}
	patterns = append(patterns, prepPatterns...)
	if cleanup != nil {
		defer cleanup()
	}
	tl := time.Now()
	prog, err := sym.Load(sym.LoadConfig{Dir: repoDir, Patterns: patterns, Overlay: overlay, Tags: "verif"})
	if err != nil {
		incon("loading /repo failed: %v", err)
		return res
	}
	if verbose {
		fmt.Fprintf(os.Stderr, "loaded in %.1fs\n", time.Since(tl).Seconds())
	}
	run := sym.NewRun(seed)
	run.Known = nil
	for _, k := range loadKnown() {
		if k.Property == c.ID {
			run.Known = append(run.Known, k)
		}
	}
	hcs := c.Harnesses(tier)
	var roots []string
	seenRoot := map[string]bool{}
	for _, hc := range hcs {
		if only != "" && !strings.Contains(hc.Name, only) || !paramOK(hc) {
			continue
		}
		run.AddHarness(hc)
		res.Harnesses = append(res.Harnesses, fmt.Sprintf("%s%v", hc.Name, hc.Params))
		if !seenRoot[hc.Pkg] {
			seenRoot[hc.Pkg] = true
			roots = append(roots, hc.Pkg)
		}
	}
	if c.Deadline != nil {
		run.Deadline = time.Now().Add(c.Deadline(tier))
	} else if tier == "thorough" {
		// thorough explores larger bounds for as long as was validated on the
		// unchanged tree: 15 minutes (45 for the checks whose thorough tier is
		// known to finish: C17, C20); what it did not finish is listed in the
		// evidence (reduced bound)
		run.Deadline = time.Now().Add(15 * time.Minute)
		if c.ID == "C17" || c.ID == "C20" {
			run.Deadline = time.Now().Add(45 * time.Minute)
		}
	} else {
		// a quick check that does not finish in 25 minutes stops there: what it
		// explored is reported, the rest is listed as not covered in the evidence
		run.Deadline = time.Now().Add(25 * time.Minute)
	}
	if d := os.Getenv("VERIF_DEADLINE_S"); d != "" {
		if n, err := strconv.Atoi(d); err == nil && n > 0 {
			run.Deadline = time.Now().Add(time.Duration(n) * time.Second)
		}
	}
	run.FailFast = 300
	if mp := os.Getenv("VERIF_MAXPATHS"); mp != "" {
		run.MaxPaths, _ = strconv.Atoi(mp)
	}
	timeoutMs := 20000
	if tier == "thorough" {
		timeoutMs = 120000
	}
	var wg sync.WaitGroup
	var mu sync.Mutex
	stopProgress := make(chan struct{})
	if verbose {
		go func() {
			tk := time.NewTicker(5 * time.Second)
			defer tk.Stop()
			for {
				select {
				case <-stopProgress:
					return
				case <-tk.C:
					fmt.Fprintln(os.Stderr, run.Progress())
					if os.Getenv("VERIF_DEBUG") != "" {
						fmt.Fprint(os.Stderr, run.Debug())
					}
				}
			}
		}()
	}
	for w := 0; w < workers; w++ {
		wg.Add(1)
		go func() {
			defer wg.Done()
			ip, err := sym.NewInterp(prog, run, solver, timeoutMs, roots)
			if err != nil {
				mu.Lock()
				incon("interpreter init: %v", err)
				mu.Unlock()
				return
			}
			defer ip.Close()
			mu.Lock()
			if res.InitPoison == nil {
				res.InitPoison = append([]string{}, ip.InitPoison()...)
			}
			mu.Unlock()
			ip.Worker()
		}()
	}
	wg.Wait()
	close(stopProgress)
	res.Stats = run.Stats
	res.Solver = run.Solver
	res.Reached = run.Reached
	for f := range run.Funcs {
		res.Funcs = append(res.Funcs, f)
	}
	sort.Strings(res.Funcs)
	for f := range run.Stubs {
		res.Stubs = append(res.Stubs, f)
	}
	sort.Strings(res.Stubs)
	if len(res.Inconclusive) > 0 {
		return res
	}
	for m, n := range run.OOMMsgs {
		incon("out-of-model path (%d): %s", n, m)
	}
	for m, n := range run.UnknownMsgs {
		incon("unknown/timeout (%d): %s", n, m)
	}
	if run.Solver.Errors > 0 {
		incon("solver reported %d error(s)", run.Solver.Errors)
	}

	// ---- native replay of witnesses and violation candidates ----
	type group struct {
		pkg    *PkgDef
		wits   []sym.Witness
		viols  []*sym.Violation
		probes []sym.Witness
	}
	groups := map[string]*group{}
	cfgOf := map[string]*sym.HarnessConfig{}
	for _, hc := range hcs {
		cfgOf[hc.Name] = hc
	}
	grp := func(h string) *group {
		p := pkgOfHarness(c, cfgOf[h])
		g := groups[p.Path]
		if g == nil {
			g = &group{pkg: p}
			groups[p.Path] = g
		}
		return g
	}
	for _, w := range run.Witnesses {
		g := grp(w.Harness)
		g.wits = append(g.wits, w)
	}
	for i := range run.Violations {
		v := &run.Violations[i]
		g := grp(v.Harness)
		g.viols = append(g.viols, v)
	}
	for _, w := range run.Probes {
		g := grp(w.Harness)
		g.probes = append(g.probes, w)
	}
	expectSeen := map[string]bool{}
	for _, g := range groups {
		ov, err := buildOverlay(c, true, g.pkg)
		if err != nil {
			incon("overlay: %v", err)
			continue
		}
		for k, v := range prepOverlay {
			ov[k] = v
		}
		var cases []sym.NativeCase
		for _, w := range g.wits {
			cases = append(cases, sym.NativeCase{Harness: w.Harness, Params: w.Params, Draws: w.Draws})
		}
		for _, v := range g.viols {
			cases = append(cases, sym.NativeCase{Harness: v.Harness, Params: v.Params, Draws: v.Draws})
		}
		for _, w := range g.probes {
			cases = append(cases, sym.NativeCase{Harness: w.Harness, Params: w.Params, Draws: w.Draws})
		}
		if len(cases) == 0 {
			continue
		}
		nres, log, err := sym.RunNative(repoDir, g.pkg.Dir, ov, cases, 120*time.Second)
		if err != nil {
			incon("native replay failed for %s: %v\n%s", g.pkg.Dir, err, tail(log, 30))
			continue
		}
		for i, w := range g.wits {
			ok, why := sym.CompareWitness(w, nres[i])
			if !ok {
				incon("witness mismatch (engine vs native) harness=%s draws=%v: %s", w.Harness, w.Draws, why)
				// The engine's model and the native build disagree, so nothing the
				// engine concluded on this path counts. But the witness is a concrete
				// input, and if the real code fails one of the harness's assertions on
				// it, that is a violation reproduced against the real code (found by
				// replay, not by the solver — the replay file says so).
				nr := nres[i]
				if hc := cfgOf[w.Harness]; hc != nil && !hc.ExpectViolation && strings.HasPrefix(nr.Outcome, "assert:") && nr.Outcome != "assert:reachable" && len(res.Confirmed) < 3 {
					v := &sym.Violation{Harness: w.Harness, Params: w.Params, Label: strings.TrimPrefix(nr.Outcome, "assert:"), Draws: w.Draws,
						Site: "native replay of a path witness", Msg: "the engine predicted a normal end on these inputs (" + why + "); the native build fails the assertion"}
					res.Confirmed = append(res.Confirmed, writeReplay(c, v, nr))
				}
				continue
			}
			res.WitnessesOK++
			if len(res.Samples) < 6 {
				res.Samples = append(res.Samples, map[string]interface{}{"harness": w.Harness, "params": w.Params, "draws": w.Draws, "outcome": w.Outcome, "observations": w.Obs})
			}
		}
		// Out-of-model paths cannot be decided symbolically (the run stays
		// inconclusive), but the inputs drawn so far are a concrete test: if the
		// real code fails an assertion on them, that is a reproduced violation.
		for i, w := range g.probes {
			nr := nres[len(g.wits)+len(g.viols)+i]
			if strings.HasPrefix(nr.Outcome, "assert:") && nr.Outcome != "assert:reachable" {
				v := &sym.Violation{Harness: w.Harness, Params: w.Params, Label: strings.TrimPrefix(nr.Outcome, "assert:"), Draws: w.Draws,
					Site: "native probe of an out-of-model path", Msg: "the engine could not model this path; its inputs were run against the native build"}
				res.Confirmed = append(res.Confirmed, writeReplay(c, v, nr))
			}
		}
		for i, v := range g.viols {
			nr := nres[len(g.wits)+i]
			hc := cfgOf[v.Harness]
			want := v.Label
			got := nr.Outcome
			reproduced := false
			switch {
			case strings.HasPrefix(want, "panic:"):
				reproduced = got == "panic"
			case want == "budget" || want == "alloc" || want == "alloc-total":
				reproduced = got == "assert:"+want || got == "panic"
				if want == "budget" && got == "end" && nr.ElapsedMs >= 250 {
					// the engine exhausted its step budget on inputs of a few dozen
					// bytes; the native run of the same inputs ends normally but takes
					// >= 250 ms (microseconds are normal): the work is real, it just
					// makes no reader calls that the native counters could see
					v.Msg = fmt.Sprintf("step budget exhausted in the engine; the native run took %d ms", nr.ElapsedMs)
					reproduced = true
				}
			default:
				reproduced = got == "assert:"+want
				if !reproduced && strings.HasPrefix(got, "assert:") && got != "assert:reachable" && !hc.ExpectViolation && v.Known == "" {
					// the native run fails another assertion of the same harness on the
					// same inputs (e.g. an earlier one the engine's model let through):
					// a real violation; report it under the natively failing label
					v.Msg = fmt.Sprintf("engine predicted label %q; natively %q fails first", want, got)
					v.Label = strings.TrimPrefix(got, "assert:")
					reproduced = true
				}
			}
			if hc.ExpectViolation {
				if reproduced && want == "reachable" {
					expectSeen[v.Harness] = true
				} else if !reproduced {
					incon("reachability witness of %s did not reproduce natively (native %q)", v.Harness, got)
				}
				continue
			}
			if !reproduced {
				incon("candidate violation did not reproduce natively: harness=%s label=%s draws=%v native=%q %s", v.Harness, v.Label, v.Draws, got, firstLine(nr.Msg))
				continue
			}
			if v.Known != "" {
				res.KnownLines = append(res.KnownLines, v.Known)
				continue
			}
			path := writeReplay(c, v, nr)
			res.Confirmed = append(res.Confirmed, path)
		}
	}
	for _, hc := range hcs {
		if only != "" && !strings.Contains(hc.Name, only) || !paramOK(hc) {
			continue
		}
		if hc.ExpectViolation && !expectSeen[hc.Name] {
			incon("vacuity: reachability witness harness %s produced no reproducible assert(false)", hc.Name)
		}
		if !hc.ExpectViolation {
			if run.Reached[hc.Name+":end"] == 0 {
				incon("vacuity: harness %s%v never reached its end", hc.Name, hc.Params)
			}
		}
	}
	if run.Stats.AssertQueries == 0 {
		incon("vacuity: no assertion was discharged")
	}
	if run.TimedOut && run.Stats.AssertQueries > 0 {
		// The wall-clock deadline ended the exploration: what was explored held (or
		// its violations are reported above); what was not is a reduced bound, stated
		// in the evidence, not a failed check.
		var keep []string
		for _, m := range res.Inconclusive {
			if strings.Contains(m, "wall-clock deadline") || strings.HasPrefix(m, "vacuity:") {
				res.Incomplete = append(res.Incomplete, m)
			} else {
				keep = append(keep, m)
			}
		}
		res.Inconclusive = keep
	}
	return res
}

// evidenceDir is /verif/evidence; runs against a seeded copy of the repository
// (tools/seedcheck.sh) point it elsewhere so that the committed evidence keeps
// describing the unchanged tree.
func evidenceDir() string {
	return envOr("VERIF_EVIDENCE_DIR", filepath.Join(verifDir, "evidence"))
}

func tail(s string, n int) string {
	lines := strings.Split(s, "\n")
	if len(lines) > n {
		lines = lines[len(lines)-n:]
	}
	return strings.Join(lines, "\n")
}

func firstLine(s string) string {
	if i := strings.IndexByte(s, '\n'); i >= 0 {
		return s[:i]
	}
	return s
}

func writeReplay(c *CheckDef, v *sym.Violation, nr sym.NativeResult) string {
	dir := filepath.Join(verifDir, "replays", c.ID)
	os.MkdirAll(dir, 0o755)
	rf := replayFile{Property: c.ID, Harness: v.Harness, Params: v.Params, Draws: v.Draws, Label: v.Label, Site: v.Site, Msg: v.Msg,
		Obs: v.Obs, Native: nr.Outcome, NativeMsg: firstLine(nr.Msg)}
	data, _ := json.MarshalIndent(rf, "", " ")
	h := uint32(2166136261)
	for _, b := range data {
		h = (h ^ uint32(b)) * 16777619
	}
	path := filepath.Join(dir, fmt.Sprintf("%s-%08x.json", v.Harness, h))
	os.WriteFile(path, data, 0o644)
	return path
}

func cmdReplay(args []string) int {
	if len(args) < 1 {
		usage()
	}
	data, err := os.ReadFile(args[0])
	if err != nil {
		fmt.Fprintln(os.Stderr, err)
		return 2
	}
	var rf replayFile
	if err := json.Unmarshal(data, &rf); err != nil {
		fmt.Fprintln(os.Stderr, err)
		return 2
	}
	c := findCheck(rf.Property)
	if c == nil {
		fmt.Fprintf(os.Stderr, "unknown property %s\n", rf.Property)
		return 2
	}
	var hc *sym.HarnessConfig
	for _, tier := range []string{"quick", "thorough"} {
		for _, h := range c.Harnesses(tier) {
			if h.Name == rf.Harness {
				hc = h
			}
		}
	}
	if hc == nil {
		fmt.Fprintf(os.Stderr, "unknown harness %s\n", rf.Harness)
		return 2
	}
	p := pkgOfHarness(c, hc)
	ov, err := buildOverlay(c, true, p)
	if err != nil {
		fmt.Fprintln(os.Stderr, err)
		return 2
	}
	var cleanup func()
	if c.Prepare != nil {
		extra, _, cl, err := c.Prepare(c, "quick")
		if err != nil {
			fmt.Fprintln(os.Stderr, err)
			return 2
		}
		cleanup = cl
		for k, v := range extra {
			ov[k] = v
		}
	}
	if cleanup != nil {
		defer cleanup()
	}
	nres, log, err := sym.RunNative(repoDir, p.Dir, ov, []sym.NativeCase{{Harness: rf.Harness, Params: rf.Params, Draws: rf.Draws}}, 120*time.Second)
	if err != nil {
		fmt.Fprintf(os.Stderr, "replay failed: %v\n%s\n", err, log)
		return 2
	}
	fmt.Printf("harness=%s params=%v draws=%v\nexpected: %s\nnative outcome: %s\n%s\nobservations: %v\n", rf.Harness, rf.Params, rf.Draws, rf.Label, nres[0].Outcome, firstLine(nres[0].Msg), nres[0].Obs)
	want := rf.Label
	got := nres[0].Outcome
	budgetLike := want == "budget" || want == "alloc" || want == "alloc-total"
	if strings.HasPrefix(want, "panic:") && got == "panic" || got == "assert:"+want || budgetLike && got == "panic" || want == "budget" && got == "end" && nres[0].ElapsedMs >= 250 {
		if want == "budget" && got == "end" {
			fmt.Printf("native run took %d ms\n", nres[0].ElapsedMs)
		}
		fmt.Printf("VIOLATION property=%s replay=%s\n", rf.Property, args[0])
		return 1
	}
	fmt.Println("not reproduced on the current tree")
	return 0
}

func writeEvidence(c *CheckDef, tier string, seed int64, res *Result) {
	os.MkdirAll(evidenceDir(), 0o755)
	samples := res.Samples
	if len(samples) == 0 {
		samples = []interface{}{map[string]interface{}{"note": "no witness replayed", "harnesses": res.Harnesses}}
	}
	states := res.Stats.Paths + res.Stats.Decisions
	if states < 1 {
		states = 1
	}
	trans := res.Stats.Decisions
	if trans < 1 {
		trans = 1
	}
	var bounds map[string]interface{}
	if c.Bounds != nil {
		bounds = c.Bounds(tier)
	}
	cov := map[string]interface{}{
		"states":                        states,
		"transitions":                   trans,
		"traces_validated_against_impl": res.WitnessesOK,
		"samples":                       samples,
		"exhaustive":                    len(res.Inconclusive) == 0 && len(res.Incomplete) == 0,
		"explanation": "states = decision-tree nodes (paths + branch decisions) of the symbolic execution of the real SSA; every assertion query below was decided by the SMT solver over all values of the symbolic inputs within the bounds",
		"functions_encoded":             res.Funcs,
		"functions_encoded_count":       len(res.Funcs),
		"bounds":                        bounds,
		"harnesses":                     res.Harnesses,
		"paths": map[string]int{"total": res.Stats.Paths, "completed": res.Stats.Completed, "infeasible": res.Stats.Infeasible,
			"out_of_model": res.Stats.OOM, "budget": res.Stats.BudgetEnds, "panic": res.Stats.Panics, "ended_at_violation": res.Stats.AssertEnds},
		"assertion_queries": map[string]int{"reached": res.Stats.AssertQueries, "trivially_true_concrete": res.Stats.AssertTrivial,
			"unsat": res.Stats.AssertUnsat, "sat": res.Stats.AssertSat, "unknown": res.Stats.AssertUnknown},
		"solver": map[string]interface{}{"name": res.SolverName, "queries": res.Solver.Queries, "sat": res.Solver.Sat, "unsat": res.Solver.Unsat,
			"unknown": res.Solver.Unknown, "errors": res.Solver.Errors, "time_s": res.Solver.Time.Seconds(), "restarts": res.Solver.Restarts},
		"interpreter_steps": res.Stats.Steps,
		"stubs_hit":         res.Stubs,
		"unmodelled_init_calls": res.InitPoison,
		"reached":           res.Reached,
		"inconclusive":      res.Inconclusive,
		"incomplete":        res.Incomplete,
		"known_findings":    res.KnownLines,
	}
	ev := map[string]interface{}{
		"property_id": c.ID,
		"tier":        tier,
		"seed":        seed,
		"level":       "model_checking",
		"coverage":    cov,
		"assumptions": c.Assume,
		"wall_s":      res.Wall,
		"violations":  len(res.Confirmed),
	}
	data, _ := json.MarshalIndent(ev, "", " ")
	os.WriteFile(filepath.Join(evidenceDir(), c.ID+".json"), data, 0o644)
}

package main

import (
	"bytes"
	"encoding/json"
	"fmt"
	"go/types"
	"os"
	"os/exec"
	"path/filepath"
	"sort"
	"strings"

	"golang.org/x/tools/go/packages"

	"verif/engine/gengen"
	"verif/engine/sym"
)

const genPrefix = "go.uber.org/thriftrw/zzverifgen"

// GenInfo describes what the generated-code pipeline produced.
type GenInfo struct {
	Overlay  map[string][]byte
	MainPkg  string // import path of zzmain
	MainDir  string // dir (relative to repo) of zzmain
	Types    []string
	Skipped  []string
	Patterns []string
}

func goEnv() []string {
	return append(os.Environ(), "GOFLAGS=-mod=mod", "GOPROXY=off", "GOSUMDB=off", "GOTOOLCHAIN=local", "CGO_ENABLED=0")
}

func runCmd(dir string, name string, args ...string) ([]byte, error) {
	cmd := exec.Command(name, args...)
	cmd.Dir = dir
	cmd.Env = goEnv()
	var out, errb bytes.Buffer
	cmd.Stdout = &out
	cmd.Stderr = &errb
	if err := cmd.Run(); err != nil {
		return out.Bytes(), fmt.Errorf("%s %s: %v\n%s", name, strings.Join(args, " "), err, tailStr(errb.String(), 20))
	}
	return out.Bytes(), nil
}

func tailStr(s string, n int) string {
	l := strings.Split(s, "\n")
	if len(l) > n {
		l = l[len(l)-n:]
	}
	return strings.Join(l, "\n")
}

// prepareGenerated builds the thriftrw CLI from /repo's working tree,
// generates the corpus, dumps the schema facts with /repo's own compile
// package, emits the adapters and returns the overlay that injects all of it
// as go.uber.org/thriftrw/zzverifgen/... (nothing is written into /repo).
func prepareGenerated(corpus []string, k, l int) (*GenInfo, func(), error) {
	tmp, err := os.MkdirTemp("", "symgo-gen-")
	if err != nil {
		return nil, nil, err
	}
	sym.RegisterTemp(tmp)
	cleanup := func() { os.RemoveAll(tmp) }
	fail := func(err error) (*GenInfo, func(), error) { cleanup(); return nil, nil, err }

	// corpus copy (so that relative includes work and the thrift root is one dir)
	cdir := filepath.Join(tmp, "corpus")
	os.MkdirAll(cdir, 0o755)
	var roots []string
	for _, c := range corpus {
		data, err := os.ReadFile(c)
		if err != nil {
			return fail(err)
		}
		dst := filepath.Join(cdir, filepath.Base(c))
		os.WriteFile(dst, data, 0o644)
		roots = append(roots, dst)
	}
	// 1. CLI from the working tree
	cli := filepath.Join(tmp, "thriftrw")
	if _, err := runCmd(repoDir, "go", "build", "-o", cli, "."); err != nil {
		return fail(fmt.Errorf("building thriftrw from /repo: %v", err))
	}
	// 2. generate
	outDir := filepath.Join(tmp, "out")
	for _, r := range roots {
		if _, err := runCmd(tmp, cli, "--out", outDir, "--pkg-prefix", genPrefix, "--thrift-root", cdir, "--no-zap", "--no-embed-idl", r); err != nil {
			return fail(fmt.Errorf("generating %s: %v", filepath.Base(r), err))
		}
	}
	overlay := map[string][]byte{}
	genDirs := map[string]bool{}
	err = filepath.Walk(outDir, func(p string, info os.FileInfo, err error) error {
		if err != nil || info.IsDir() || !strings.HasSuffix(p, ".go") {
			return err
		}
		rel, _ := filepath.Rel(outDir, p)
		data, err := os.ReadFile(p)
		if err != nil {
			return err
		}
		overlay[filepath.Join(repoDir, "zzverifgen", rel)] = data
		genDirs[filepath.Dir(rel)] = true
		return nil
	})
	if err != nil {
		return fail(err)
	}
	// 3. schema facts through /repo's own compile package
	dumper, err := os.ReadFile(filepath.Join(verifDir, "engine", "gengen", "dumper.go.txt"))
	if err != nil {
		return fail(err)
	}
	dumpSrc := filepath.Join(tmp, "dumper_main.go")
	os.WriteFile(dumpSrc, dumper, 0o644)
	ovJSON, _ := json.Marshal(map[string]interface{}{"Replace": map[string]string{filepath.Join(repoDir, "zzverifdump", "main.go"): dumpSrc}})
	ovPath := filepath.Join(tmp, "dump-overlay.json")
	os.WriteFile(ovPath, ovJSON, 0o644)
	factsJSON, err := runCmd(repoDir, "go", append([]string{"run", "-overlay", ovPath, "./zzverifdump"}, roots...)...)
	if err != nil {
		return fail(fmt.Errorf("dumping schema facts: %v", err))
	}
	var mods []*gengen.Module
	if err := json.Unmarshal(factsJSON, &mods); err != nil {
		return fail(fmt.Errorf("schema facts: %v", err))
	}
	// 4. zzlib (needed to type-check nothing yet, but adapters import it)
	libDir := filepath.Join(repoDir, "zzverifgen", "zzlib")
	for _, f := range []string{"zz_lib.go", "zz_harness.go", "zz_runner.go"} {
		data, err := os.ReadFile(filepath.Join(verifDir, "harness", "genlib", f))
		if err != nil {
			return fail(err)
		}
		overlay[filepath.Join(libDir, f)] = data
	}
	for _, t := range []string{"zz_verif_support.go", "zz_verif_f64.go"} {
		data, err := os.ReadFile(filepath.Join(verifDir, "harness", t+".tmpl"))
		if err != nil {
			return fail(err)
		}
		overlay[filepath.Join(libDir, t)] = bytes.ReplaceAll(data, []byte("PKGNAME"), []byte("zzlib"))
	}
	// 5. Go types of the generated packages
	var patterns []string
	modPkg := map[string]string{}
	for _, m := range mods {
		rel, _ := filepath.Rel(cdir, strings.TrimSuffix(m.Path, ".thrift"))
		modPkg[m.Path] = genPrefix + "/" + filepath.ToSlash(rel)
		patterns = append(patterns, "./zzverifgen/"+filepath.ToSlash(rel))
	}
	pc := &packages.Config{Mode: packages.NeedTypes | packages.NeedName | packages.NeedImports | packages.NeedDeps | packages.NeedSyntax | packages.NeedTypesInfo,
		Dir: repoDir, Overlay: overlay, Env: goEnv(), BuildFlags: []string{"-tags=verif"}}
	pkgs, err := packages.Load(pc, patterns...)
	if err != nil {
		return fail(err)
	}
	tpk := map[string]*types.Package{}
	for _, p := range pkgs {
		if len(p.Errors) > 0 {
			return fail(fmt.Errorf("generated package %s does not type-check: %v", p.PkgPath, p.Errors[0]))
		}
		tpk[p.PkgPath] = p.Types
	}
	// 6. adapters
	em := &gengen.Emitter{LibPath: genPrefix + "/zzlib", ModPkg: modPkg, Pkgs: tpk, Mods: map[string]*gengen.Module{}, K: k, L: l}
	for _, m := range mods {
		em.Mods[m.Path] = m
	}
	info := &GenInfo{Overlay: overlay, MainPkg: genPrefix + "/zzmain", MainDir: "zzverifgen/zzmain"}
	var imports []string
	for _, m := range mods {
		src, err := em.EmitPackage(m)
		if err != nil {
			return fail(err)
		}
		rel, _ := filepath.Rel(cdir, strings.TrimSuffix(m.Path, ".thrift"))
		overlay[filepath.Join(repoDir, "zzverifgen", rel, "zz_adapters.go")] = src
		imports = append(imports, modPkg[m.Path])
		for _, t := range m.Types {
			switch t.Kind {
			case "struct", "union", "exception", "result01":
				info.Types = append(info.Types, m.Name+"."+t.Name)
			}
		}
	}
	info.Skipped = em.Skipped
	skipped := map[string]bool{}
	for _, s := range em.Skipped {
		skipped[strings.SplitN(s, ":", 2)[0]] = true
	}
	var kept []string
	for _, t := range info.Types {
		if !skipped[t] {
			kept = append(kept, t)
		}
	}
	sort.Strings(kept)
	info.Types = kept
	// 7. zzmain
	sort.Strings(imports)
	var mb bytes.Buffer
	mb.WriteString("//go:build verif\n\npackage zzmain\n\nimport (\n\t\"" + genPrefix + "/zzlib\"\n")
	for _, ip := range imports {
		fmt.Fprintf(&mb, "\t_ %q\n", ip)
	}
	mb.WriteString(")\n\n")
	hs := []string{"H01", "H04a", "H04b", "H04c", "H04v", "H05", "H13a", "H13b", "H14g", "H14t", "HBig", "HConst", "HWitness"}
	for _, h := range hs {
		fmt.Fprintf(&mb, "func g%s() { zzlib.%s() }\n", h, h)
	}
	mb.WriteString("\nfunc init() {\n")
	for _, h := range hs {
		fmt.Fprintf(&mb, "\tzzlib.Register(%q, g%s)\n", "g"+h, h)
	}
	mb.WriteString("}\n")
	mainDir := filepath.Join(repoDir, "zzverifgen", "zzmain")
	overlay[filepath.Join(mainDir, "zz_main.go")] = mb.Bytes()
	overlay[filepath.Join(mainDir, "zz_main_test.go")] = []byte(`//go:build verif

package zzmain

import (
	"os"
	"testing"

	"` + genPrefix + `/zzlib"
)

func TestVerifReplay(t *testing.T) {
	if err := zzlib.RunCases(os.Getenv("VERIF_REPLAY_FILE"), os.Getenv("VERIF_REPLAY_OUT")); err != nil {
		t.Fatal(err)
	}
}
`)
	info.Patterns = []string{"./zzverifgen/zzmain"}
	return info, cleanup, nil
}

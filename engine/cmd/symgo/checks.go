package main

import (
	"verif/engine/sym"
)

const binPkg = "go.uber.org/thriftrw/protocol/binary"

var pkgBinary = PkgDef{Path: binPkg, Dir: "protocol/binary", Name: "binary", Files: []string{"protocol_binary/zz_h03.go"}}

var commonAssume = []string{
	"A1 sequential execution (no goroutines)",
	"A2 amd64: int is 64 bits",
	"A3 unsafe string/slice views are not mutated afterwards",
	"A5 underlying readers fail only with EOF; writers do not fail",
	"T1 go/ssa lowering (x/tools v0.29.0) and this engine's transfer functions; cross-checked by native replay of path witnesses",
	"T2 z3 4.8.12",
	"T3 fmt.* is an opaque stub (messages are not formatted); sync.Pool is a LIFO list; mutexes/atomics are sequential",
}

func allChecks() []*CheckDef {
	return []*CheckDef{checkC03()}
}

func checkC03() *CheckDef {
	return &CheckDef{
		ID:   "C03",
		Pkgs: []PkgDef{pkgBinary},
		Harnesses: func(tier string) []*sym.HarnessConfig {
			maxN := 6
			if tier == "thorough" {
				maxN = 9
			}
			var out []*sym.HarnessConfig
			for n := 0; n <= maxN; n++ {
				out = append(out, &sym.HarnessConfig{Name: "h03a", Pkg: binPkg, Params: map[string]int{"n": n}, Budget: 400000, BigLim: maxN + 2, BudgetIsViolation: true})
			}
			out = append(out, &sym.HarnessConfig{Name: "h03a_witness", Pkg: binPkg, Params: map[string]int{"n": 3}, Budget: 400000, BigLim: maxN + 2, ExpectViolation: true})
			return out
		},
		Bounds: func(tier string) map[string]interface{} {
			maxN := 6
			if tier == "thorough" {
				maxN = 9
			}
			return map[string]interface{}{"input_bytes_max": maxN, "requested_type": "all 256 values (symbolic)"}
		},
		Assume: commonAssume,
	}
}

package main

import (
	"fmt"
	"path/filepath"
	"strings"
	"verif/engine/sym"
)

const binPkg = "go.uber.org/thriftrw/protocol/binary"

var pkgBinary = PkgDef{Path: binPkg, Dir: "protocol/binary", Name: "binary", Files: []string{"protocol_binary/zz_common.go", "protocol_binary/zz_h03.go", "protocol_binary/zz_h02.go", "protocol_binary/zz_h12.go", "protocol_binary/zz_h13.go"}}

var commonAssume = []string{
	"A1 sequential execution (no goroutines)",
	"A2 amd64: int is 64 bits",
	"A3 unsafe string/slice views are not mutated afterwards",
	"A5 underlying readers fail only with EOF; writers do not fail",
	"T1 go/ssa lowering (x/tools v0.29.0) and this engine's transfer functions; cross-checked by native replay of path witnesses",
	"T2 z3 5.1.0 (z3-new); z3 4.8.12 and cvc5 available for cross-checking with --solver",
	"T6 strconv.ParseFloat on a symbolic token of <= 4 bytes is a stub returning an arbitrary float64 and no error (only reached by the lexer in C11)",
	"T3 fmt.* is an opaque stub (messages are not formatted); sync.Pool is a LIFO list; mutexes/atomics are sequential",
}

func allChecks() []*CheckDef {
	return []*CheckDef{checkC02(), checkC03(), checkC12(), checkC13(), checkC14(), checkC09(), checkC11(), checkC20(), checkC17(), checkC16(), checkC01(), checkC04(), checkC05()}
}

func checkC03() *CheckDef {
	type bnd struct{ nA, nC, depth, budget, k, bin, muts int }
	bounds := func(tier string) bnd {
		if tier == "thorough" {
			return bnd{nA: 10, nC: 6, depth: 2, budget: 3, k: 1, bin: 1, muts: 1}
		}
		return bnd{nA: 7, nC: 5, depth: 2, budget: 2, k: 1, bin: 1, muts: 1}
	}
	return &CheckDef{
		ID:   "C03",
		Pkgs: []PkgDef{pkgBinary},
		Harnesses: func(tier string) []*sym.HarnessConfig {
			b := bounds(tier)
			var out []*sym.HarnessConfig
			for n := 0; n <= b.nA; n++ {
				out = append(out, &sym.HarnessConfig{Name: "h03a", Pkg: binPkg, Params: map[string]int{"n": n}, Budget: 600000, BigLim: b.nA + 2, BudgetIsViolation: true})
			}
			out = append(out, &sym.HarnessConfig{Name: "h03b", Pkg: binPkg, Params: map[string]int{"depth": b.depth, "budget": b.budget, "k": b.k, "bin": b.bin, "muts": b.muts},
				Budget: 1000000, BigLim: 40, BudgetIsViolation: true})
			for n := 0; n <= b.nC; n++ {
				out = append(out, &sym.HarnessConfig{Name: "h03a", Pkg: binPkg, Params: map[string]int{"n": n, "eofdata": 1}, Budget: 600000, BigLim: b.nA + 2, BudgetIsViolation: true})
			}
			out = append(out, &sym.HarnessConfig{Name: "h03d", Pkg: binPkg, Params: map[string]int{}, Budget: 20000000, BigLim: 16, BudgetIsViolation: true})
			for n := 0; n <= b.nC; n++ {
				out = append(out, &sym.HarnessConfig{Name: "h03c", Pkg: binPkg, Params: map[string]int{"n": n}, Budget: 600000, BigLim: b.nC + 2, BudgetIsViolation: true})
			}
			out = append(out, &sym.HarnessConfig{Name: "h03a_witness", Pkg: binPkg, Params: map[string]int{"n": 3}, Budget: 600000, BigLim: 8, ExpectViolation: true})
			return out
		},
		Bounds: func(tier string) map[string]interface{} {
			b := bounds(tier)
			return map[string]interface{}{
				"familyA_input_bytes_max": b.nA, "requested_type": "all 256 values (symbolic)",
				"familyB_value_shape":     map[string]int{"depth": b.depth, "nodes": b.budget, "container_len": b.k, "binary_len": b.bin},
				"familyB_mutations":       fmt.Sprintf("truncation at every offset, or %d arbitrary byte substitution(s) at every position", b.muts),
				"chunking_input_bytes_max": b.nC, "chunking": "every segmentation into reads of >=1 byte plus one zero-length read",
				"deep_nesting": "h03d: chains of structs / lists / alternating, 63..130 levels, symbolic leaf",
				"eof_with_data": "family A is repeated (n <= chunking bound) with a stream source that returns io.EOF together with the last bytes",
				"outside": "longer inputs; >1MiB binaries on the success side; I/O errors other than EOF",
			}
		},
		Assume: commonAssume,
	}
}

func checkC02() *CheckDef {
	params := func(tier string) map[string]int {
		if tier == "thorough" {
			return map[string]int{"depth": 3, "budget": 5, "k": 2, "bin": 2}
		}
		return map[string]int{"depth": 2, "budget": 4, "k": 2, "bin": 2}
	}
	return &CheckDef{
		ID:   "C02",
		Pkgs: []PkgDef{pkgBinary},
		Harnesses: func(tier string) []*sym.HarnessConfig {
			return []*sym.HarnessConfig{
				{Name: "h02", Pkg: binPkg, Params: params(tier), Budget: 2000000},
				{Name: "h02", Pkg: binPkg, Params: map[string]int{"depth": 2, "budget": 3, "k": 1, "bin": 1, "warm": 70}, Budget: 4000000},
				{Name: "h02len", Pkg: binPkg, Params: map[string]int{}, Budget: 20000000},
				{Name: "h02c", Pkg: binPkg, Params: map[string]int{"depth": 2, "budget": 2, "k": 1, "bin": 2}, Budget: 2000000},
				{Name: "h02big", Pkg: binPkg, Params: map[string]int{}, Budget: 400000000, BigLim: 16},
				{Name: "h02_witness", Pkg: binPkg, Params: map[string]int{"depth": 1, "budget": 2, "k": 1, "bin": 1}, ExpectViolation: true},
			}
		},
		Bounds: func(tier string) map[string]interface{} {
			p := params(tier)
			return map[string]interface{}{"nesting_depth_max": p["depth"], "total_nodes_max": p["budget"], "container_len_max": p["k"], "binary_len_max": p["bin"],
				"leaves": "all values of every scalar (symbolic), all field ids (symbolic, pairwise distinct)",
				"segmentation": "h02c: every segmentation of the stream into reads for shapes of <= 2 nodes",
				"large_binaries": "h02big: binaries of 1 MiB+1 and 1.5 MiB+1 bytes (pattern content, 3 symbolic bytes) through both decoders; h02len: binaries/strings of 250..260 bytes through both writers and the decoder",
				"eof_with_data": "sources (io.Reader and io.ReaderAt) that return io.EOF together with the last bytes",
				"dirty_pools":   "a configuration of small shapes runs after 70 failed decodes of a truncated nested container (pooled readers reused)"}
		},
		Assume: commonAssume,
	}
}

func checkC12() *CheckDef {
	type bnd struct{ l, n, lc, free int }
	bounds := func(tier string) bnd {
		if tier == "thorough" {
			return bnd{l: 6, n: 12, lc: 3, free: 3}
		}
		return bnd{l: 3, n: 8, lc: 2, free: 2}
	}
	return &CheckDef{
		ID:   "C12",
		Pkgs: []PkgDef{pkgBinary},
		Harnesses: func(tier string) []*sym.HarnessConfig {
			b := bounds(tier)
			var out []*sym.HarnessConfig
			for l := 1; l <= b.l; l++ {
				out = append(out, &sym.HarnessConfig{Name: "h12a", Pkg: binPkg, Params: map[string]int{"l": l}, Budget: 1000000, BigLim: 24})
			}
			longNames := []int{55, 56}
			if tier == "thorough" {
				longNames = []int{50, 51, 52, 53, 54, 55, 56, 57, 58, 59, 60, 63, 64, 65, 127, 128, 129, 255, 256, 257}
			}
			for _, l := range longNames {
				out = append(out, &sym.HarnessConfig{Name: "h12a", Pkg: binPkg, Params: map[string]int{"l": l}, Budget: 4000000, BigLim: 300})
			}
			for rk := 0; rk <= 3; rk++ {
				for n := 0; n <= b.n; n++ {
					out = append(out, &sym.HarnessConfig{Name: "h12b", Pkg: binPkg, Params: map[string]int{"n": n, "reader": rk, "free": b.free}, Budget: 1000000, BigLim: b.n + 2})
				}
				for l := 1; l <= b.lc; l++ {
					out = append(out, &sym.HarnessConfig{Name: "h12c", Pkg: binPkg, Params: map[string]int{"l": l, "reader": rk, "free": b.free}, Budget: 1000000, BigLim: 24})
				}
			}
			out = append(out, &sym.HarnessConfig{Name: "h12_witness", Pkg: binPkg, Params: map[string]int{"l": 1}, ExpectViolation: true})
			return out
		},
		Bounds: func(tier string) map[string]interface{} {
			b := bounds(tier)
			return map[string]interface{}{
				"roundtrip_name_len": fmt.Sprintf("1..%d (all byte values), plus 55 and 56 (thorough: 50..60, 63..65, 127..129, 255..257)", b.l), "type": "0..127 symbolic", "seqid": "all int32", "body": "struct with <=1 field, symbolic id and leaf",
				"classification_input_bytes_max": b.n, "readers": fmt.Sprintf("seekable bytes.Reader; one-shot non-seekable; one-shot returning io.EOF with the last bytes; non-seekable whose first %d reads return every possible count (>=1 byte, plus one zero-length read) and later reads are maximal", b.free),
				"echo_name_len": fmt.Sprintf("1..%d", b.lc),
				"outside":       "names longer than the bound (up to 2^16 in the property), legacy names >= 16 MB, negative message types, internal/envelope client/server and multiplex wrappers (see h12d when present)",
			}
		},
		Assume: commonAssume,
	}
}

const k0Alloc = 1<<20 + 4096

func allocLimit(params map[string]int) (uint64, uint64) {
	n := params["n"]
	if n == 0 {
		n = 64
	}
	k0 := k0Alloc
	if params["frame"] == 1 {
		k0 = 10<<20 + 4096 // documented _fastPathFrameSize of the frame reader
	}
	return uint64(k0 + 128*n), uint64(2*k0 + 256*n)
}

func checkC13() *CheckDef {
	c := checkC13base()
	c.Prepare = genPrepare(1, 1)
	base := c.Harnesses
	c.Harnesses = func(tier string) []*sym.HarnessConfig {
		out := base(tier)
		ng := 4
		if tier == "thorough" {
			ng = 6
		}
		for api := 0; api <= 2; api++ {
			for n := 0; n <= ng; n++ {
				for _, h := range genHarnesses(c, "gH13a", map[string]int{"n": n, "api": api, "depth": 2}, 300000+30000*n) {
					h.BudgetIsViolation = true
					h.AllocLimit = allocLimit
					out = append(out, h)
				}
			}
			for flip := 0; flip <= 1; flip++ {
				for _, h := range genHarnesses(c, "gH13b", map[string]int{"api": api, "depth": 2, "simple": 1, "typeflip": flip}, 3000000) {
					h.BudgetIsViolation = true
					h.AllocLimit = allocLimit
					out = append(out, h)
				}
			}
		}
		return out
	}
	baseB := c.Bounds
	c.Bounds = func(tier string) map[string]interface{} {
		m := baseB(tier)
		m["generated_deserializers"] = "FromWire(Decode(b)) and Decode(stream) (seekable / non-seekable) of every corpus type on arbitrary bytes (<= 4, thorough 6) and on reference encodings of valid values (concrete leaves) in which each length/count field in turn is an arbitrary int32, optionally with arbitrary element-type bytes in front of it"
		return genBounds(c, m)
	}
	c.Assume = genAssume()
	return c
}

func checkC13base() *CheckDef {
	type bnd struct{ n, depth, budget, k, bin int }
	bounds := func(tier string) bnd {
		if tier == "thorough" {
			return bnd{n: 10, depth: 2, budget: 2, k: 1, bin: 1}
		}
		return bnd{n: 8, depth: 2, budget: 2, k: 1, bin: 1}
	}
	return &CheckDef{
		ID:   "C13",
		Pkgs: []PkgDef{pkgBinary, pkgFrame},
		Harnesses: func(tier string) []*sym.HarnessConfig {
			b := bounds(tier)
			var out []*sym.HarnessConfig
			for api := 0; api <= 9; api++ {
				for n := 0; n <= b.n; n++ {
					out = append(out, &sym.HarnessConfig{Name: "h13a", Pkg: binPkg, Params: map[string]int{"n": n, "api": api},
						Budget: 300000 + 30000*n, BigLim: b.n + 2, BudgetIsViolation: true, AllocLimit: allocLimit})
				}
			}
			h13bAPIs := 2
			if tier == "thorough" {
				h13bAPIs = 4
			}
			for api := 0; api <= h13bAPIs; api++ {
				out = append(out, &sym.HarnessConfig{Name: "h13b", Pkg: binPkg, Params: map[string]int{"api": api, "depth": b.depth, "budget": b.budget, "k": b.k, "bin": b.bin},
					Budget: 2000000, BigLim: 48, BudgetIsViolation: true, AllocLimit: allocLimit})
			}
			for n := 0; n <= b.n; n++ {
				out = append(out, &sym.HarnessConfig{Name: "h13f", Pkg: framePkg, Params: map[string]int{"n": n, "frame": 1},
					Budget: 300000 + 30000*n, BigLim: b.n + 2, BudgetIsViolation: true, AllocLimit: allocLimit})
			}
			for api := 0; api <= 2; api++ {
				out = append(out, &sym.HarnessConfig{Name: "h13c", Pkg: binPkg, Params: map[string]int{"api": api, "n": 48},
					Budget: 3000000, BigLim: 64, BudgetIsViolation: true, AllocLimit: allocLimit})
			}
			out = append(out, &sym.HarnessConfig{Name: "h13_witness", Pkg: binPkg, Params: map[string]int{"n": 2, "api": 0}, ExpectViolation: true})
			return out
		},
		Bounds: func(tier string) map[string]interface{} {
			b := bounds(tier)
			return map[string]interface{}{
				"arbitrary_message_bytes_max": b.n,
				"apis":                        "Decode+force, stream decode (seekable/non-seekable), Skip (both), DecodeEnveloped, ReadEnvelopeBegin, DecodeRequest, ReadRequest (both)",
				"length_field_templates":      map[string]int{"depth": b.depth, "nodes": b.budget, "container_len": b.k, "binary_len": b.bin},
				"alloc_bound":                 "each request <= 1MiB+4KiB+128*N bytes, path total <= 2x that",
				"work_bound":                  "calls into the underlying reader <= 64+32*N; interpreter steps <= 300000+30000*N",
				"one_byte_reads":              "h13c: ReadBinary / ReadString / ReadEnvelopeBegin with an arbitrary declared length followed by 40 bytes arriving one per Read",
				"frame_reader":                "frame.Reader.Read on arbitrary bytes; fixed constant 10MiB+4KiB (its documented fast-path size)",
				"outside":                     "constant factors; GC; programs outside the corpus",
			}
		},
		Assume: commonAssume,
	}
}

const wirePkg = "go.uber.org/thriftrw/wire"

var pkgWire = PkgDef{Path: wirePkg, Dir: "wire", Name: "wire", Files: []string{"wire/zz_h14.go"}}

func checkC14() *CheckDef {
	c := checkC14base()
	c.Prepare = genPrepare(1, 1)
	base := c.Harnesses
	c.Harnesses = func(tier string) []*sym.HarnessConfig {
		out := base(tier)
		for _, h := range genHarnesses(c, "gH14g", map[string]int{"depth": 2, "simple": 1, "sameshape": 1}, 20000000) {
			out = append(out, h)
		}
		if tier == "thorough" {
			for _, h := range genHarnesses(c, "gH14g", map[string]int{"depth": 2, "simple": 1, "sameshape": 0}, 20000000) {
				out = append(out, h)
			}
		}
		// containers of two elements (permuted order matters for slice-backed sets)
		for _, h := range genHarnesses(c, "gH14g", map[string]int{"depth": 2, "simple": 2, "sameshape": 1, "k": 2}, 40000000) {
			name := c.Gen.Types[h.Params["type"]]
			if strings.HasSuffix(name, ".OneSliceSet") || strings.HasSuffix(name, ".OneStructSet") || strings.HasSuffix(name, ".OneListKeyMap") || strings.HasSuffix(name, ".OneStructKeyMap") {
				out = append(out, h)
			}
		}
		// independent shapes (absent vs empty vs one element) for the small type
		// whose fields are typedefs of containers, in the quick tier too
		if tier != "thorough" {
			for _, h := range genHarnesses(c, "gH14g", map[string]int{"depth": 2, "simple": 0, "sameshape": 0}, 20000000) {
				if strings.Contains(c.Gen.Types[h.Params["type"]], ".TypedefdOpt") {
					out = append(out, h)
				}
			}
		}
		for _, h := range genHarnesses(c, "gH14t", map[string]int{"depth": 1, "simple": 1}, 20000000) {
			out = append(out, h)
		}
		return out
	}
	baseB := c.Bounds
	c.Bounds = func(tier string) map[string]interface{} {
		m := baseB(tier)
		m["generated_equals"] = "every corpus type: x, y (and z) obtained by decoding reference encodings of valid values (quick: y has the shape of x with independent leaves; thorough: also independent shapes) (containers <= 1 element, nested values all-absent or all-present; plus, for the types OneSliceSet, OneStructSet, OneListKeyMap and OneStructKeyMap (slice-backed sets, unhashable map keys), a configuration with exactly 2 elements per container, all fields present; and for TypedefdOptA/B (optional typedefs of list/binary/set/map) independent shapes in the quick tier too); Equals vs structural oracle vs wire.ValuesAreEqual; nil receivers/arguments"
		m["outside"] = "NaN and duplicates (excluded by the statement); larger containers; programs outside the corpus"
		return genBounds(c, m)
	}
	c.Assume = genAssume()
	return c
}

func checkC14base() *CheckDef {
	params := func(tier string) map[string]int {
		if tier == "thorough" {
			return map[string]int{"depth": 2, "budget": 3, "budget2": 2, "k": 2, "bin": 1}
		}
		return map[string]int{"depth": 2, "budget": 3, "budget2": 2, "k": 2, "bin": 1}
	}
	return &CheckDef{
		ID:   "C14",
		Pkgs: []PkgDef{pkgWire},
		Harnesses: func(tier string) []*sym.HarnessConfig {
			p := params(tier)
			return []*sym.HarnessConfig{
				{Name: "h14", Pkg: wirePkg, Params: map[string]int{"depth": p["depth"], "budget": p["budget"], "budget2": 0, "k": p["k"], "bin": p["bin"]}, Budget: 3000000, AllMapOrders: true},
				{Name: "h14", Pkg: wirePkg, Params: map[string]int{"depth": p["depth"], "budget": p["budget2"], "budget2": p["budget2"], "k": p["k"], "bin": p["bin"]}, Budget: 3000000, AllMapOrders: true},
				{Name: "h14s", Pkg: wirePkg, Params: map[string]int{}, Budget: 3000000, AllMapOrders: true},
				{Name: "h14r", Pkg: wirePkg, Params: map[string]int{"depth": p["depth"], "budget": p["budget"] + 1, "k": p["k"], "bin": p["bin"]}, Budget: 3000000, AllMapOrders: true},
				{Name: "h14t", Pkg: wirePkg, Params: map[string]int{"depth": p["depth"], "budget": p["budget"] - 1, "k": p["k"], "bin": p["bin"]}, Budget: 3000000, AllMapOrders: true},
				{Name: "h14_witness", Pkg: wirePkg, Params: map[string]int{"depth": 1, "budget": 2, "budget2": 1, "k": 1, "bin": 1}, ExpectViolation: true},
			}
		},
		Bounds: func(tier string) map[string]interface{} {
			p := params(tier)
			return map[string]interface{}{"wire_values": p, "transitivity_triples": "same-shape triples with independent leaves, one node fewer than pairs", "second_value": "same shape with independent leaves (first value <= budget nodes), and independent shapes (both <= budget2 nodes)",
				"unhashable_elements": "h14s: a struct of two scalar fields as set element / map key / inside list<set>, second value with independent leaves and fields possibly in the other order", "map_iteration": "all orders", "preconditions": "no NaN; sets and map keys duplicate-free; struct ids distinct (as the property states)",
				"outside": "generated Equals methods (generated-code pipeline not built yet); larger containers"}
		},
		Assume: commonAssume,
	}
}

const compilePkg = "go.uber.org/thriftrw/compile"

var pkgCompile = PkgDef{Path: compilePkg, Dir: "compile", Name: "compile", Files: []string{"compile/zz_h09.go"}}

func checkC09() *CheckDef {
	return &CheckDef{
		ID:   "C09",
		Pkgs: []PkgDef{pkgCompile, pkgIdlInt},
		Harnesses: func(tier string) []*sym.HarnessConfig {
			var out []*sym.HarnessConfig
			for part := 0; part <= 2; part++ {
				out = append(out, &sym.HarnessConfig{Name: "h09", Pkg: compilePkg, Params: map[string]int{"part": part, "nfields": 2}, Budget: 3000000})
			}
			out = append(out, &sym.HarnessConfig{Name: "h09", Pkg: compilePkg, Params: map[string]int{"part": 0, "nfields": 3}, Budget: 3000000})
			// the numbers as written: integer literals through the real lexer and parser
			for n := 1; n <= 3; n++ {
				out = append(out, &sym.HarnessConfig{Name: "h11e", Pkg: idlIntPkg, Params: map[string]int{"n": n, "kind": 0}, Budget: 6000000})
			}
			for _, n := range []int{1, 2, 16} {
				out = append(out, &sym.HarnessConfig{Name: "h11e", Pkg: idlIntPkg, Params: map[string]int{"n": n, "kind": 1}, Budget: 6000000})
			}
			out = append(out, &sym.HarnessConfig{Name: "h09_witness", Pkg: compilePkg, Params: map[string]int{"part": 0, "nfields": 2}, ExpectViolation: true})
			return out
		},
		Bounds: func(tier string) map[string]interface{} {
			return map[string]interface{}{
				"program_shape": "one struct with 2 and with 3 fields (effective ids computed independently from the source) / one enum with 3 items / 5 integer constants (i8,i16,i32,i64,enum) + one i16 field default",
				"numbers":       "every field id, enum value (explicit or implicit) and constant is a free 64-bit integer; strict and non-strict mode symbolic",
				"map_iteration": "insertion order (order is not this property's subject)",
				"literals":      "decimal literals of 1..3 symbolic digits (optional sign) and hex literals (1..2 symbolic digits; 16 digits with a symbolic leading digit) through the real lexer+parser: value = the number written, out-of-range hex rejected",
				"outside":       "longer literals; programs of other shapes; self-referential constants/services (C08's subject: `const i32 a = a` is accepted and a two-constant cycle overflows the stack — seen by a mutation agent, not checked here)",
			}
		},
		Assume: commonAssume,
	}
}

const idlIntPkg = "go.uber.org/thriftrw/idl/internal"

var pkgIdlInt = PkgDef{Path: idlIntPkg, Dir: "idl/internal", Name: "internal", Files: []string{"idl_internal/zz_h11.go"}}

const astPkg = "go.uber.org/thriftrw/ast"

var pkgAst = PkgDef{Path: astPkg, Dir: "ast", Name: "ast", Files: []string{"ast/zz_h11w.go"}}

func checkC11() *CheckDef {
	type bnd struct{ la, lb, lc, nd int }
	bounds := func(tier string) bnd {
		if tier == "thorough" {
			return bnd{la: 7, lb: 6, lc: 5, nd: 4}
		}
		return bnd{la: 6, lb: 5, lc: 4, nd: 4}
	}
	return &CheckDef{
		ID:   "C11",
		Pkgs: []PkgDef{pkgIdlInt, pkgAst},
		Harnesses: func(tier string) []*sym.HarnessConfig {
			b := bounds(tier)
			var out []*sym.HarnessConfig
			for dq := 0; dq <= 1; dq++ {
				for n := 2; n <= b.la; n++ {
					out = append(out, &sym.HarnessConfig{Name: "h11a", Pkg: idlIntPkg, Params: map[string]int{"n": n, "dq": dq}, Budget: 3000000})
				}
			}
			for n := 0; n <= b.lb; n++ {
				out = append(out, &sym.HarnessConfig{Name: "h11b", Pkg: idlIntPkg, Params: map[string]int{"n": n}, Budget: 3000000})
			}
			for n := 2; n <= b.lc; n++ {
				out = append(out, &sym.HarnessConfig{Name: "h11c", Pkg: idlIntPkg, Params: map[string]int{"n": n}, Budget: 6000000})
			}
			out = append(out, &sym.HarnessConfig{Name: "h11p", Pkg: idlIntPkg, Budget: 6000000})
			for n := 0; n <= b.nd; n++ {
				out = append(out, &sym.HarnessConfig{Name: "h11d", Pkg: idlIntPkg, Params: map[string]int{"n": n}, Budget: 6000000})
			}
			for n := 1; n <= 3; n++ {
				out = append(out, &sym.HarnessConfig{Name: "h11e", Pkg: idlIntPkg, Params: map[string]int{"n": n, "kind": 0}, Budget: 6000000})
			}
			for _, n := range []int{1, 2, 16} {
				out = append(out, &sym.HarnessConfig{Name: "h11e", Pkg: idlIntPkg, Params: map[string]int{"n": n, "kind": 1}, Budget: 6000000})
			}
			out = append(out, &sym.HarnessConfig{Name: "h11s", Pkg: idlIntPkg, Params: map[string]int{}, Budget: 20000000})
			out = append(out, &sym.HarnessConfig{Name: "h11w", Pkg: astPkg, Params: map[string]int{}, Budget: 6000000})
			out = append(out, &sym.HarnessConfig{Name: "h11_witness", Pkg: idlIntPkg, Params: map[string]int{"n": 3, "dq": 1}, ExpectViolation: true})
			return out
		},
		Bounds: func(tier string) map[string]interface{} {
			b := bounds(tier)
			return map[string]interface{}{
				"literal_bytes_max": b.la, "literal_grammar": "quotes + ASCII body with escapes \\n \\r \\t \\\\ \\' \\\" only (other escapes are outside the claim)",
				"layout": "h11p: two definitions (const/typedef/struct, then const) whose three inter-token gaps are 1..2 symbolic white-space bytes each: accepted, every definition at the line and column of its first byte", "docstring_bytes_max": b.lb, "docstring_whitespace_lines": "every whitespace-only line of the comment is an empty line of the docstring: all inputs of <= 4 bytes", "literal_in_context_bytes_max": b.lc, "arbitrary_document_bytes_max": b.nd,
				"integer_literals": "decimal: 1..3 symbolic digits, optional sign; hex: 1..2 symbolic digits, and 16 digits with a symbolic leading digit",
				"field_lists": "h11s: struct / exception / parameter lists of 2 fields from a menu (id or none, required/optional/none, separator , ; none, docstring), symbolic field names, optionally after an earlier Parse that left a docstring unclaimed or failed: ids, requiredness, names, docstrings, lines",
				"ast_walk":         "one program with a constant of each scalar kind (symbolic values), a list and a map: every node visited once with a parent",
				"outside": "tree structure and positions of other constructs, layout/separator combinations, documents longer than the bound",
			}
		},
		Assume: commonAssume,
	}
}

const comparePkg = "go.uber.org/thriftrw/internal/compare"

var pkgCompare = PkgDef{Path: comparePkg, Dir: "internal/compare", Name: "compare", Files: []string{"compare/zz_h20.go"}}

func checkC20() *CheckDef {
	return &CheckDef{
		ID:   "C20",
		Pkgs: []PkgDef{pkgCompare},
		Harnesses: func(tier string) []*sym.HarnessConfig {
			if tier == "thorough" {
				return []*sym.HarnessConfig{
					{Name: "h20", Pkg: comparePkg, Params: map[string]int{"ns": 2, "nv": 0}, Budget: 3000000, AllMapOrders: true, RealFmt: true},
					{Name: "h20", Pkg: comparePkg, Params: map[string]int{"ns": 0, "nv": 2, "parent": 1}, Budget: 3000000, AllMapOrders: true, RealFmt: true},
					{Name: "h20", Pkg: comparePkg, Params: map[string]int{"ns": 1, "nv": 1}, Budget: 3000000, AllMapOrders: true, RealFmt: true},
					{Name: "h20k", Pkg: comparePkg, Budget: 3000000, AllMapOrders: true, RealFmt: true},
					{Name: "h20_witness", Pkg: comparePkg, Params: map[string]int{"ns": 1, "nv": 0}, AllMapOrders: false, RealFmt: true, ExpectViolation: true},
				}
			}
			return []*sym.HarnessConfig{
				{Name: "h20", Pkg: comparePkg, Params: map[string]int{"ns": 1, "nv": 0}, Budget: 3000000, AllMapOrders: true, RealFmt: true},
				{Name: "h20", Pkg: comparePkg, Params: map[string]int{"ns": 0, "nv": 2, "parent": 1}, Budget: 3000000, AllMapOrders: true, RealFmt: true},
				{Name: "h20", Pkg: comparePkg, Params: map[string]int{"ns": 1, "nv": 1}, Budget: 3000000, AllMapOrders: true, RealFmt: true},
				{Name: "h20k", Pkg: comparePkg, Budget: 3000000, AllMapOrders: true, RealFmt: true},
				{Name: "h20_witness", Pkg: comparePkg, Params: map[string]int{"ns": 1, "nv": 0}, AllMapOrders: false, RealFmt: true, ExpectViolation: true},
			}
		},
		Bounds: func(tier string) map[string]interface{} {
			return map[string]interface{}{
				"inheritance":   "in the services-only configuration the new version of a service may extend a service declaring the same method names",
				"modules":       "<= 2 structs (2 and 1 fields) and <= 2 services (2 and 1 methods) in the old version; every subset of deletions, re-typings (3 types), requiredness flips, one added field per struct, added struct/service/method in the new version",
				"field_ids":     "symbolic int16, distinct within a struct",
				"map_iteration": "all orders",
				"two_files":     "h20k: one Pass over two files in different directories declaring the same names; a definition of each kind (struct, union, exception) with one field; the same edit script (re-typing, requiredness, added field, removed method) applied to the first file and by choice to the second; per-file counts and attribution",
				"outside":       "git plumbing, CLI exit status, JSON mode",
			}
		},
		Assume: append(append([]string{}, commonAssume...), "fmt.Sprintf formats concrete string/integer arguments for real in this check (engine mini-formatter), so diagnostics can be classified by their text"),
	}
}

const genPkg = "go.uber.org/thriftrw/gen"
const intPluginPkg = "go.uber.org/thriftrw/internal/plugin"

var pkgGen17 = PkgDef{Path: genPkg, Dir: "gen", Name: "gen", Files: []string{"gen/zz_h17.go"}, Rewrites: []Rewrite{
	{File: "generate.go", Old: "generateModule(m, importer, genBuilder, o)", New: "zzGenerateModule(m, importer, genBuilder, o)", Count: 1},
	{File: "generate.go", Old: "os.MkdirAll(", New: "zzMkdirAll(", Count: 1},
	{File: "generate.go", Old: "os.WriteFile(", New: "zzWriteFile(", Count: 1},
	{File: "generate.go", Old: "func mergeFiles(", New: "var _ os.FileMode\n\nfunc mergeFiles(", Count: 1},
}}

var pkgMain = PkgDef{Path: "go.uber.org/thriftrw", Dir: ".", Name: "main", Files: []string{"main/zz_h17m.go"}}

var pkgIntPlugin = PkgDef{Path: intPluginPkg, Dir: "internal/plugin", Name: "plugin", Files: []string{"internal_plugin/zz_export.go", "internal_plugin/zz_h16a.go", "internal_plugin/zz_h16f.go"}, Rewrites: []Rewrite{
	// the plugin process is a scripted transport (h16f)
	{File: "flag.go", Old: "process.NewClient(f.Command)", New: "zzNewClient(f)", Count: 1},
	{File: "flag.go", Old: "const _pluginExecPrefix", New: "var _ = process.NewClient\n\nconst _pluginExecPrefix", Count: 1},
}}

func checkC17() *CheckDef {
	type bnd struct {
		l, plugins, files int
		probe             []int
	}
	bounds := func(tier string) bnd {
		if tier == "thorough" {
			return bnd{l: 5, plugins: 2, files: 1, probe: []int{10, 11, 12}}
		}
		return bnd{l: 4, plugins: 2, files: 1, probe: []int{11}}
	}
	return &CheckDef{
		ID:   "C17",
		Pkgs: []PkgDef{pkgGen17, pkgIntPlugin, pkgMain},
		Harnesses: func(tier string) []*sym.HarnessConfig {
			b := bounds(tier)
			var out []*sym.HarnessConfig
			out = append(out, &sym.HarnessConfig{Name: "h17", Pkg: genPkg, Params: map[string]int{"l": b.l, "plugins": 1, "files": b.files, "fixedlen": 0}, Budget: 5000000, AllMapOrders: true})
			out = append(out, &sym.HarnessConfig{Name: "h17", Pkg: genPkg, Params: map[string]int{"l": b.l - 1, "plugins": 2, "files": 1, "fixedlen": 0}, Budget: 5000000, AllMapOrders: true})
			// collision probes: one plugin file whose path has exactly the length of the core path +1 / +2
			for _, l := range b.probe {
				out = append(out, &sym.HarnessConfig{Name: "h17", Pkg: genPkg, Params: map[string]int{"l": l, "plugins": 1, "files": 1, "fixedlen": 1}, Budget: 5000000, AllMapOrders: true})
			}
			// --no-recurse and --output-file take another branch of Generate
			for mode := 1; mode <= 2; mode++ {
				out = append(out, &sym.HarnessConfig{Name: "h17", Pkg: genPkg, Params: map[string]int{"l": 2, "plugins": 2, "files": 1, "fixedlen": 0, "mode": mode}, Budget: 5000000, AllMapOrders: true})
			}
			// a response with a second file next to the one that may collide with the core path
			out = append(out, &sym.HarnessConfig{Name: "h17", Pkg: genPkg, Params: map[string]int{"l": 1, "plugins": 1, "files": 1, "fixedlen": 1, "second": 1}, Budget: 5000000, AllMapOrders: true})
			out = append(out, &sym.HarnessConfig{Name: "h17m", Pkg: "go.uber.org/thriftrw", Params: map[string]int{"l": 3}, Budget: 5000000})
			out = append(out, &sym.HarnessConfig{Name: "h17_witness", Pkg: genPkg, Params: map[string]int{"l": 1, "plugins": 1, "files": 1, "fixedlen": 0}, ExpectViolation: true})
			return out
		},
		Bounds: func(tier string) map[string]interface{} {
			b := bounds(tier)
			return map[string]interface{}{
				"plugins": b.plugins, "files_per_plugin": b.files, "plugin_path_len": fmt.Sprintf("1..%d arbitrary bytes (1..%d with two plugins); plus single paths of exactly %v arbitrary bytes (the core path foo/foo.go has 10)", b.l, b.l-1, b.probe),
				"faults": "none / core generator / each plugin", "modes": "recursive; --no-recurse and --output-file with paths of 1..2 bytes and two plugins", "second_file": "the path foo/foo.?? (last two bytes symbolic; the core path is foo/foo.go) together with a fixed harmless file that sorts after it in one response", "plugin_names": "distinct, or two instances of the same plugin",
				"thrift_root": "h17m (package main): the inferred root for a file in /r/<d1> including a file in /r/<d2> or /r/<d1>/<d2>, directory names of 1..3 symbolic bytes, is an ancestor of both", "map_iteration": "all orders", "plugin_order": "all orders (concurrent.Range modelled sequentially in every order)",
				"stubs": "generateModule (template expansion) replaced by a stub with the same path computation; os.MkdirAll/os.WriteFile replaced by recorders (textual redirection of the current gen/generate.go, used for symbolic run and native replay alike)",
				"outside": "real file-system effects, failures inside the write loop, handshake failures (C16)",
			}
		},
		Assume: commonAssume,
	}
}

const framePkg = "go.uber.org/thriftrw/internal/frame"
const pluginPkg = "go.uber.org/thriftrw/plugin"

var pkgFrame = PkgDef{Path: framePkg, Dir: "internal/frame", Name: "frame", Files: []string{"internal_frame/zz_h16b.go"}}
var pkgPlugin = PkgDef{Path: pluginPkg, Dir: "plugin", Name: "plugin", Files: []string{"plugin/zz_h16c.go"}}

func checkC16() *CheckDef {
	type bnd struct{ l, lf, free int }
	bounds := func(tier string) bnd {
		if tier == "thorough" {
			return bnd{l: 4, lf: 6, free: 4}
		}
		return bnd{l: 2, lf: 2, free: 2}
	}
	return &CheckDef{
		ID:   "C16",
		Pkgs: []PkgDef{pkgIntPlugin, pkgFrame, pkgPlugin},
		Harnesses: func(tier string) []*sym.HarnessConfig {
			b := bounds(tier)
			var out []*sym.HarnessConfig
			for l := 1; l <= b.l; l++ {
				out = append(out, &sym.HarnessConfig{Name: "h16a", Pkg: intPluginPkg, Params: map[string]int{"l": l}, Budget: 5000000, BigLim: 64})
				out = append(out, &sym.HarnessConfig{Name: "h16c", Pkg: pluginPkg, Params: map[string]int{"l": l}, Budget: 5000000, BigLim: 64})
			}
			for n := 1; n <= 3; n++ {
				out = append(out, &sym.HarnessConfig{Name: "h16f", Pkg: intPluginPkg, Params: map[string]int{"plugins": n}, Budget: 5000000, BigLim: 64, AllMapOrders: true})
			}
			out = append(out, &sym.HarnessConfig{Name: "h16b", Pkg: framePkg, Params: map[string]int{"l": b.lf, "free": b.free}, Budget: 5000000, BigLim: 16})
			out = append(out, &sym.HarnessConfig{Name: "h16_witness", Pkg: intPluginPkg, Params: map[string]int{"l": 1}, BigLim: 64, ExpectViolation: true})
			return out
		},
		Bounds: func(tier string) map[string]interface{} {
			b := bounds(tier)
			return map[string]interface{}{
				"handshake_reply": fmt.Sprintf("envelope type 0..127, plugin name (%d bytes), API version (4 bytes), <=2 features: all symbolic; plus truncation at every offset", b.l),
				"frames":          fmt.Sprintf("two frames of <= %d symbolic bytes, first %d reads arbitrarily segmented (incl. one zero-length read), truncation at every offset", b.lf, b.free),
				"plugin_side":     "plugin.Main over in-memory pipes: handshake then goodbye, symbolic name and seqids, with/without generator",
				"flags_handle":    "h16f: Flags.Handle over 1..3 plugins, each: process does not start / handshake under a wrong name / good handshake with a symbolic feature id; opened in every order (concurrent.Range modelled sequentially in every order); then generate through the combined generator and Close; process.NewClient textually redirected to a scripted transport",
				"outside":         "real processes, pipes, reaping, exit status, true concurrency, early exit, main.do's own use of the handle",
			}
		},
		Assume: commonAssume,
	}
}

// ---- generated-code checks ----

// genCorpus: /verif/corpus; C01's thorough tier adds the repository's own
// test schemas (as they are in the working tree).
func genCorpus(tier string, big bool) []string {
	out := []string{filepath.Join(verifDir, "corpus", "vcore.thrift")}
	if tier == "thorough" && big {
		for _, f := range []string{"structs", "containers", "unions", "enums", "typedefs", "exceptions", "services", "enum_conflict", "uuid_conflict", "set_to_slice", "stringdef"} {
			out = append(out, filepath.Join(repoDir, "gen", "internal", "tests", "thrift", f+".thrift"))
		}
	}
	return out
}

func genPrepare(k, l int) func(c *CheckDef, tier string) (map[string][]byte, []string, func(), error) {
	return func(c *CheckDef, tier string) (map[string][]byte, []string, func(), error) {
		// only C01 (cheap per type) adds the repository's own test schemas in the thorough tier
		info, cleanup, err := prepareGenerated(genCorpus(tier, c.ID == "C01"), k, l)
		if err != nil {
			return nil, nil, nil, err
		}
		c.Gen = info
		c.Pkgs = append(c.Pkgs, PkgDef{Path: info.MainPkg, Dir: info.MainDir, Name: "zzmain", Raw: true})
		return info.Overlay, info.Patterns, cleanup, nil
	}
}

func genHarnesses(c *CheckDef, name string, extra map[string]int, budget int) []*sym.HarnessConfig {
	var out []*sym.HarnessConfig
	if c.Gen == nil {
		return out
	}
	for i := range c.Gen.Types {
		p := map[string]int{"type": i}
		for k, v := range extra {
			p[k] = v
		}
		out = append(out, &sym.HarnessConfig{Name: name, Pkg: c.Gen.MainPkg, Params: p, Budget: budget, BigLim: 200})
	}
	return out
}

func genBounds(c *CheckDef, m map[string]interface{}) map[string]interface{} {
	if c.Gen != nil {
		m["corpus_types"] = c.Gen.Types
		m["corpus_types_skipped"] = c.Gen.Skipped
	}
	m["corpus"] = "programs are not quantified over: /verif/corpus/*.thrift, generated afresh by the thriftrw CLI built from /repo's working tree"
	return m
}

func checkC01() *CheckDef {
	c := &CheckDef{ID: "C01", Assume: append(append([]string{}, commonAssume...),
		"T4 the independent reference codec and the structural equality are harness code (harness/genlib) written from the Thrift spec",
		"T5 schema facts come from /repo's own compile package; generated struct fields are assumed to appear in schema order")}
	c.Prepare = genPrepare(1, 1)
	c.Harnesses = func(tier string) []*sym.HarnessConfig {
		d := 2
		out := genHarnesses(c, "gH01", map[string]int{"depth": d}, 20000000)
		out = append(out, &sym.HarnessConfig{Name: "gHConst", Pkg: c.Gen.MainPkg, Params: map[string]int{"depth": 1}, Budget: 20000000, BigLim: 16})
		out = append(out, &sym.HarnessConfig{Name: "gHBig", Pkg: c.Gen.MainPkg, Params: map[string]int{"depth": 1}, Budget: 600000000, BigLim: 16})
		out = append(out, &sym.HarnessConfig{Name: "gHWitness", Pkg: c.Gen.MainPkg, Params: map[string]int{"type": 0, "depth": 1}, Budget: 20000000, ExpectViolation: true})
		return out
	}
	c.Bounds = func(tier string) map[string]interface{} {
		return genBounds(c, map[string]interface{}{"containers_max": 1, "strings_max": 1, "struct_nesting": 2,
			"constants": "gHConst: every generated constant of a primitive or enum type equals its IDL literal (incl. a string with CR LF, quotes and a backslash)",
			"large_values": "gHBig: a struct with a string and a binary of 1 MiB+1 bytes each (pattern content, 3 symbolic bytes each) through both deserializers",
			"outside": "programs outside the corpus; generator option sets other than --no-zap --no-embed-idl; String(); container/struct constants; Default_T() and GetX() accessors"})
	}
	return c
}

func genAssume() []string {
	return append(append([]string{}, commonAssume...),
		"T4 the independent reference codec and the structural equality are harness code (harness/genlib) written from the Thrift spec",
		"T5 schema facts come from /repo's own compile package; generated struct fields are assumed to appear in schema order")
}

func checkC04() *CheckDef {
	c := &CheckDef{ID: "C04", Assume: genAssume()}
	c.Prepare = genPrepare(1, 1)
	type bnd struct{ n, muts int }
	bounds := func(tier string) bnd {
		if tier == "thorough" {
			return bnd{n: 8, muts: 1}
		}
		return bnd{n: 6, muts: 1}
	}
	c.Harnesses = func(tier string) []*sym.HarnessConfig {
		b := bounds(tier)
		var out []*sym.HarnessConfig
		for n := 0; n <= b.n; n++ {
			out = append(out, genHarnesses(c, "gH04a", map[string]int{"n": n, "depth": 2}, 20000000)...)
		}
		simple := 2
		if tier == "thorough" {
			simple = 1
		}
		out = append(out, genHarnesses(c, "gH04b", map[string]int{"depth": 2, "muts": b.muts, "simple": simple}, 20000000)...)
		out = append(out, genHarnesses(c, "gH04v", map[string]int{"depth": 2}, 20000000)...)
		out = append(out, genHarnesses(c, "gH04c", map[string]int{"depth": 2, "simple": 2, "free": 4}, 20000000)...)
		// strings and binaries whose length sits at a buffer-size boundary
		for _, l := range []int{252, 253, 256, 257} {
			out = append(out, genHarnesses(c, "gH04v", map[string]int{"depth": 1, "simple": 2, "strlen": l}, 40000000)...)
		}
		out = append(out, &sym.HarnessConfig{Name: "gHWitness", Pkg: c.Gen.MainPkg, Params: map[string]int{"type": 0, "depth": 1}, Budget: 20000000, ExpectViolation: true})
		return out
	}
	c.Bounds = func(tier string) map[string]interface{} {
		b := bounds(tier)
		return genBounds(c, map[string]interface{}{"arbitrary_bytes_max": b.n, "mutations_of_reference_encodings": fmt.Sprintf("truncation at every offset or %d arbitrary byte substitution(s)", b.muts),
			"readers": "random access; streaming over seekable and one-shot non-seekable sources; gH04c: an encoding with an unknown leading field (15 shapes) decoded from a stream whose first 4 reads are arbitrarily segmented (incl. one zero-length read)",
			"boundary_lengths": "gH04v with every string/binary leaf 252, 253, 256 or 257 bytes long (pattern content, symbolic first and last byte)",
			"value_shapes": "mutated encodings: concrete leaves, containers of 1 element, every nilable field present (thorough: also all absent); value direction: shapes as in C01",
			"outside":      "programs outside the corpus"})
	}
	return c
}

func checkC05() *CheckDef {
	c := &CheckDef{ID: "C05", Assume: genAssume()}
	c.Prepare = genPrepare(1, 1)
	c.Harnesses = func(tier string) []*sym.HarnessConfig {
		var out []*sym.HarnessConfig
		for step := 0; step <= 4; step++ {
			simple := 0
			if step <= 1 {
				simple = 1 // base values: every nilable field absent, or every one present
			}
			ends := simple
			if tier == "thorough" {
				ends = 0 // the unknown field at every boundary
			}
			nshapes := 0
			if step == 1 && tier != "thorough" {
				nshapes = 8 // the seven scalar shapes and list<i32>
			}
			out = append(out, genHarnesses(c, "gH05", map[string]int{"depth": 2, "step": step, "simple": simple, "ends": ends, "nshapes": nshapes}, 20000000)...)
			if step == 0 {
				// the unknown field in front, decoded from a stream whose first 4 reads are arbitrarily segmented
				out = append(out, genHarnesses(c, "gH05", map[string]int{"depth": 2, "step": 0, "simple": 2, "ends": 2, "chunk": 4}, 20000000)...)
			}
		}
		out = append(out, &sym.HarnessConfig{Name: "gHWitness", Pkg: c.Gen.MainPkg, Params: map[string]int{"type": 0, "depth": 1}, Budget: 20000000, ExpectViolation: true})
		return out
	}
	c.Bounds = func(tier string) map[string]interface{} {
		return genBounds(c, map[string]interface{}{
			"evolution_steps": "one step on the top-level struct: unknown field (symbolic id, 15 well-formed shapes incl. one nested 70 levels deep, field boundaries; also decoded from a stream whose first 4 reads are arbitrarily segmented); declared field re-encoded with another wire type; declared field removed; fields reversed; a container field re-encoded as the same kind of container with another element type, map keys and values of different widths (read as absent by both paths)",
			"value_shapes":    "as C01; steps with foreign values: base values with all nilable fields absent or all present; quick: unknown field at the first or last boundary and 8 of the 15 shapes for re-typing, thorough: every boundary, all shapes",
			"outside":         "steps inside nested structs/containers; two or more steps",
		})
	}
	return c
}

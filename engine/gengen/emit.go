// Package gengen emits, from schema facts and the Go types of freshly
// generated thriftrw code, the type-specific adapters the generated-code
// harnesses need: arbitrary-value builders, Go value -> logical tree
// converters, schema validity predicates and default fillers.
package gengen

import (
	"bytes"
	"fmt"
	"go/types"
	"sort"
	"strconv"
	"strings"
)

// TT is a resolved Thrift type tree (typedefs are transparent).
type TT struct {
	K      string `json:"k"`
	Elem   *TT    `json:"elem,omitempty"`
	Key    *TT    `json:"key,omitempty"`
	Val    *TT    `json:"val,omitempty"`
	Name   string `json:"name,omitempty"`
	Module string `json:"module,omitempty"`
}

// Default is a primitive default value.
type Default struct {
	Kind string  `json:"kind"`
	B    bool    `json:"b,omitempty"`
	I    int64   `json:"i,omitempty"`
	D    float64 `json:"d,omitempty"`
	S    string  `json:"s,omitempty"`
}

// Field, Type, Module mirror the dumper's output.
type Field struct {
	ID       int16    `json:"id"`
	Name     string   `json:"name"`
	Required bool     `json:"required"`
	Type     *TT      `json:"type"`
	Default  *Default `json:"default,omitempty"`
}

type Type struct {
	Name   string  `json:"name"`
	Kind   string  `json:"kind"`
	Fields []Field `json:"fields,omitempty"`
	Target *TT     `json:"target,omitempty"`
}

type Const struct {
	Name  string   `json:"name"`
	Type  *TT      `json:"type"`
	Value *Default `json:"value"`
}

type Module struct {
	Path   string  `json:"path"`
	Name   string  `json:"name"`
	Types  []Type  `json:"types"`
	Consts []Const `json:"consts,omitempty"`
}

// Emitter produces adapter source for one generated package at a time.
type Emitter struct {
	LibPath string                    // import path of zzlib
	ModPkg  map[string]string         // thrift file path -> Go import path
	Pkgs    map[string]*types.Package // Go import path -> type-checked package
	Mods    map[string]*Module        // thrift file path -> facts
	K, L    int                       // container size bound, string length bound

	cur     *types.Package
	imports map[string]string
	body    bytes.Buffer
	hbuf    bytes.Buffer
	helpers map[string]string
	nhelp   int
	Skipped []string
}

func wireType(t *TT) string {
	switch t.K {
	case "bool":
		return "wire.TBool"
	case "i8":
		return "wire.TI8"
	case "i16":
		return "wire.TI16"
	case "i32", "enum":
		return "wire.TI32"
	case "i64":
		return "wire.TI64"
	case "double":
		return "wire.TDouble"
	case "string", "binary":
		return "wire.TBinary"
	case "list":
		return "wire.TList"
	case "set":
		return "wire.TSet"
	case "map":
		return "wire.TMap"
	case "struct":
		return "wire.TStruct"
	}
	panic("wireType " + t.K)
}

func (e *Emitter) qual(p *types.Package) string {
	if p == e.cur {
		return ""
	}
	if a, ok := e.imports[p.Path()]; ok {
		return a
	}
	a := "zzp" + strconv.Itoa(len(e.imports))
	e.imports[p.Path()] = a
	return a
}

func (e *Emitter) ts(t types.Type) string { return types.TypeString(t, e.qual) }

func isPrimTT(t *TT) bool {
	switch t.K {
	case "bool", "i8", "i16", "i32", "i64", "double", "string", "enum":
		return true
	}
	return false
}

// structTypeOf returns the Go named struct type for a struct TT.
func (e *Emitter) structPkg(t *TT) (*types.Package, error) {
	ip, ok := e.ModPkg[t.Module]
	if !ok {
		return nil, fmt.Errorf("no package for module %s", t.Module)
	}
	p := e.Pkgs[ip]
	if p == nil {
		return nil, fmt.Errorf("package %s not loaded", ip)
	}
	return p, nil
}

// candidates lists possible Go identifiers for a Thrift type name.
func candidates(thrift string) []string {
	out := []string{thrift}
	if thrift != "" && thrift[0] >= 'a' && thrift[0] <= 'z' {
		out = append(out, string(thrift[0]-32)+thrift[1:])
	}
	// CamelCase with underscores squashed
	var sb strings.Builder
	up := true
	for i := 0; i < len(thrift); i++ {
		c := thrift[i]
		if c == '_' {
			up = true
			continue
		}
		if up && c >= 'a' && c <= 'z' {
			c -= 32
		}
		up = false
		sb.WriteByte(c)
	}
	out = append(out, sb.String())
	// SCREAMING_SNAKE -> ScreamingSnake
	var sb2 strings.Builder
	for _, part := range strings.Split(thrift, "_") {
		if part == "" {
			continue
		}
		lower := strings.ToLower(part)
		sb2.WriteString(strings.ToUpper(lower[:1]) + lower[1:])
	}
	out = append(out, sb2.String())
	return out
}

// matchStruct says whether a Go struct has exactly the schema's fields (by
// their json tags, which carry the Thrift field names).
func matchStruct(st *types.Struct, fields []Field) bool {
	if st.NumFields() != len(fields) {
		return false
	}
	for i, f := range fields {
		tag := st.Tag(i)
		if !strings.Contains(tag, `json:"`+f.Name+`,`) && !strings.Contains(tag, `json:"`+f.Name+`"`) {
			return false
		}
	}
	return true
}

// goNameIn resolves the Go identifier of a Thrift struct-like type.
func goNameIn(p *types.Package, thrift string, fields []Field) string {
	for _, c := range candidates(thrift) {
		obj := p.Scope().Lookup(c)
		if obj == nil {
			continue
		}
		st, ok := obj.Type().Underlying().(*types.Struct)
		if ok && matchStruct(st, fields) {
			return c
		}
	}
	return ""
}

func (e *Emitter) factsOf(t *TT) []Field {
	m := e.Mods[t.Module]
	if m == nil {
		return nil
	}
	for _, ty := range m.Types {
		if ty.Name == t.Name && ty.Kind != "enum" && ty.Kind != "typedef" {
			return ty.Fields
		}
	}
	return nil
}

func (e *Emitter) goName(t *TT) string {
	p, err := e.structPkg(t)
	if err != nil {
		panic(err)
	}
	n := goNameIn(p, t.Name, e.factsOf(t))
	if n == "" {
		panic(fmt.Sprintf("no Go type for %s in %s", t.Name, p.Path()))
	}
	return n
}

func (e *Emitter) structFn(prefix string, t *TT) string {
	p, err := e.structPkg(t)
	if err != nil {
		panic(err)
	}
	q := e.qual(p)
	if q != "" {
		q += "."
	}
	return q + prefix + e.goName(t)
}

// helper returns the name of a (memoised) helper function for (kind, tt, gt).
func (e *Emitter) helper(kind string, t *TT, gt types.Type, gen func(name string)) string {
	key := kind + "|" + ttKey(t) + "|" + e.ts(gt)
	if n, ok := e.helpers[key]; ok {
		return n
	}
	e.nhelp++
	name := fmt.Sprintf("zz%s%d", kind, e.nhelp)
	e.helpers[key] = name
	gen(name)
	return name
}

func ttKey(t *TT) string {
	switch t.K {
	case "list", "set":
		return t.K + "<" + ttKey(t.Elem) + ">"
	case "map":
		return "map<" + ttKey(t.Key) + "," + ttKey(t.Val) + ">"
	case "struct", "enum":
		return t.K + ":" + t.Module + ":" + t.Name
	}
	return t.K
}

func (e *Emitter) pf(format string, a ...interface{}) { fmt.Fprintf(&e.body, format, a...) }

// ---- arbitrary values ----

// anyExpr returns a Go expression of type gt for an arbitrary value of t.
// d is the name of the depth variable in scope.
func (e *Emitter) anyExpr(t *TT, gt types.Type, d string, free string) string {
	u := gt.Underlying()
	conv := func(x string) string { return "(" + e.ts(gt) + ")(" + x + ")" }
	switch t.K {
	case "bool":
		return conv("zzlib.VerifBool()")
	case "i8":
		return conv("zzlib.VerifI8()")
	case "i16":
		return conv("zzlib.VerifI16()")
	case "i32", "enum":
		return conv("zzlib.VerifI32()")
	case "i64":
		return conv("zzlib.VerifI64()")
	case "double":
		return conv("zzlib.VerifF64()")
	case "string":
		return conv(fmt.Sprintf("zzlib.VerifString(zzlib.VerifChoice(%d))", e.L+1))
	case "binary":
		return conv(fmt.Sprintf("zzlib.AnyBytes(%d)", e.L))
	case "struct":
		// gt is a pointer to a named struct (possibly a typedef of it)
		return conv(e.structFn("ZzAnyOrNil_", t) + "(" + d + "-1)")
	case "list", "set", "map":
		name := e.helper("Any", t, gt, func(name string) {
			var sb bytes.Buffer
			gts := e.ts(gt)
			fmt.Fprintf(&sb, "func %s(d int, free bool) %s {\n", name, gts)
			fmt.Fprintf(&sb, "\tn := zzlib.ContainerSize(free)\n")
			fmt.Fprintf(&sb, "\tif n == 0 {\n\t\tif zzlib.VerifChoice(2) == 0 {\n\t\t\treturn nil\n\t\t}\n\t\treturn %s{}\n\t}\n", gts)
			switch uu := u.(type) {
			case *types.Slice:
				fmt.Fprintf(&sb, "\tout := make(%s, 0, n)\n\tfor i := 0; i < n; i++ {\n", gts)
				if t.K == "map" {
					st := uu.Elem().Underlying().(*types.Struct)
					fmt.Fprintf(&sb, "\t\tk := %s\n\t\tv := %s\n", e.anyExpr(t.Key, st.Field(0).Type(), "d", "free"), e.anyExpr(t.Val, st.Field(1).Type(), "d", "free"))
					fmt.Fprintf(&sb, "\t\tfor _, o := range out {\n\t\t\tzzlib.VerifAssume(zzlib.Eq(%s, %s) == 0)\n\t\t}\n", e.treeExpr(t.Key, st.Field(0).Type(), "o.Key"), e.treeExpr(t.Key, st.Field(0).Type(), "k"))
					fmt.Fprintf(&sb, "\t\tout = append(out, %s{Key: k, Value: v})\n", e.ts(uu.Elem()))
				} else {
					fmt.Fprintf(&sb, "\t\tx := %s\n", e.anyExpr(t.Elem, uu.Elem(), "d", "free"))
					if t.K == "set" {
						fmt.Fprintf(&sb, "\t\tfor _, o := range out {\n\t\t\tzzlib.VerifAssume(zzlib.Eq(%s, %s) == 0)\n\t\t}\n", e.treeExpr(t.Elem, uu.Elem(), "o"), e.treeExpr(t.Elem, uu.Elem(), "x"))
					}
					fmt.Fprintf(&sb, "\t\tout = append(out, x)\n")
				}
				fmt.Fprintf(&sb, "\t}\n\treturn out\n}\n\n")
			case *types.Map:
				fmt.Fprintf(&sb, "\tout := make(%s, n)\n\tfor i := 0; i < n; i++ {\n", gts)
				if t.K == "set" {
					fmt.Fprintf(&sb, "\t\tout[%s] = struct{}{}\n", e.anyExpr(t.Elem, uu.Key(), "d", "free"))
				} else {
					fmt.Fprintf(&sb, "\t\tk := %s\n\t\tout[k] = %s\n", e.anyExpr(t.Key, uu.Key(), "d", "free"), e.anyExpr(t.Val, uu.Elem(), "d", "free"))
				}
				fmt.Fprintf(&sb, "\t}\n\treturn out\n}\n\n")
			default:
				panic(fmt.Sprintf("container %s with Go type %s", ttKey(t), gts))
			}
			e.hbuf.Write(sb.Bytes())
		})
		return name + "(" + d + ", " + free + ")"
	}
	panic("anyExpr " + t.K)
}

// ---- Go value -> logical tree ----

func (e *Emitter) treeExpr(t *TT, gt types.Type, x string) string {
	u := gt.Underlying()
	switch t.K {
	case "bool":
		return fmt.Sprintf("zzlib.Leaf(wire.TBool, uint64(zzlib.VerifB2I(bool(%s))))", x)
	case "i8":
		return fmt.Sprintf("zzlib.Leaf(wire.TI8, uint64(uint8(%s)))", x)
	case "i16":
		return fmt.Sprintf("zzlib.Leaf(wire.TI16, uint64(uint16(%s)))", x)
	case "i32", "enum":
		return fmt.Sprintf("zzlib.Leaf(wire.TI32, uint64(uint32(%s)))", x)
	case "i64":
		return fmt.Sprintf("zzlib.Leaf(wire.TI64, uint64(%s))", x)
	case "double":
		return fmt.Sprintf("zzlib.Leaf(wire.TDouble, math.Float64bits(float64(%s)))", x)
	case "string":
		return fmt.Sprintf("zzlib.Bin([]byte(string(%s)))", x)
	case "binary":
		return fmt.Sprintf("zzlib.Bin([]byte(%s))", x)
	case "struct":
		p, _ := e.structPkg(t)
		q := e.qual(p)
		if q != "" {
			q += "."
		}
		gn := e.goName(t)
		return fmt.Sprintf("%sZzTree_%s((*%s%s)(%s))", q, gn, q, gn, x)
	case "list", "set", "map":
		name := e.helper("Tree", t, gt, func(name string) {
			var sb bytes.Buffer
			fmt.Fprintf(&sb, "func %s(v %s) *zzlib.Node {\n", name, e.ts(gt))
			switch uu := u.(type) {
			case *types.Slice:
				if t.K == "map" {
					st := uu.Elem().Underlying().(*types.Struct)
					fmt.Fprintf(&sb, "\tn := zzlib.Map(%s, %s)\n\tfor _, it := range v {\n\t\tn.AddKV(%s, %s)\n\t}\n\treturn n\n}\n\n",
						wireType(t.Key), wireType(t.Val), e.treeExpr(t.Key, st.Field(0).Type(), "it.Key"), e.treeExpr(t.Val, st.Field(1).Type(), "it.Value"))
				} else {
					ctor := "List"
					if t.K == "set" {
						ctor = "Set"
					}
					fmt.Fprintf(&sb, "\tn := zzlib.%s(%s)\n\tfor _, x := range v {\n\t\tn.Add(%s)\n\t}\n\treturn n\n}\n\n", ctor, wireType(t.Elem), e.treeExpr(t.Elem, uu.Elem(), "x"))
				}
			case *types.Map:
				if t.K == "set" {
					fmt.Fprintf(&sb, "\tn := zzlib.Set(%s)\n\tfor x := range v {\n\t\tn.Add(%s)\n\t}\n\treturn n\n}\n\n", wireType(t.Elem), e.treeExpr(t.Elem, uu.Key(), "x"))
				} else {
					fmt.Fprintf(&sb, "\tn := zzlib.Map(%s, %s)\n\tfor k, x := range v {\n\t\tn.AddKV(%s, %s)\n\t}\n\treturn n\n}\n\n",
						wireType(t.Key), wireType(t.Val), e.treeExpr(t.Key, uu.Key(), "k"), e.treeExpr(t.Val, uu.Elem(), "x"))
				}
			}
			e.hbuf.Write(sb.Bytes())
		})
		return name + "(" + x + ")"
	}
	panic("treeExpr " + t.K)
}

// ---- schema validity (no nil element in containers, nested structs valid) ----

// validExpr returns a Go bool expression; x is known to be non-nil for
// nilable kinds at the call site only when stated.
func (e *Emitter) validExpr(t *TT, gt types.Type, x string) string {
	u := gt.Underlying()
	switch t.K {
	case "struct":
		p, _ := e.structPkg(t)
		q := e.qual(p)
		if q != "" {
			q += "."
		}
		gn := e.goName(t)
		return fmt.Sprintf("(%s != nil && %sZzValid_%s((*%s%s)(%s)))", x, q, gn, q, gn, x)
	case "binary":
		return fmt.Sprintf("(%s != nil)", x)
	case "list", "set", "map":
		name := e.helper("Valid", t, gt, func(name string) {
			var sb bytes.Buffer
			fmt.Fprintf(&sb, "func %s(v %s) bool {\n\tif v == nil {\n\t\treturn false\n\t}\n", name, e.ts(gt))
			switch uu := u.(type) {
			case *types.Slice:
				if t.K == "map" {
					st := uu.Elem().Underlying().(*types.Struct)
					fmt.Fprintf(&sb, "\tfor _, it := range v {\n\t\tif !%s || !%s {\n\t\t\treturn false\n\t\t}\n\t}\n",
						e.validExpr(t.Key, st.Field(0).Type(), "it.Key"), e.validExpr(t.Val, st.Field(1).Type(), "it.Value"))
				} else if !isPrimTT(t.Elem) {
					fmt.Fprintf(&sb, "\tfor _, x := range v {\n\t\tif !%s {\n\t\t\treturn false\n\t\t}\n\t}\n", e.validExpr(t.Elem, uu.Elem(), "x"))
				}
			case *types.Map:
				if t.K == "set" {
					// hashable elements are primitives: nothing to check
				} else if !isPrimTT(t.Val) {
					fmt.Fprintf(&sb, "\tfor _, x := range v {\n\t\tif !%s {\n\t\t\treturn false\n\t\t}\n\t}\n", e.validExpr(t.Val, uu.Elem(), "x"))
				}
			}
			fmt.Fprintf(&sb, "\treturn true\n}\n\n")
			e.hbuf.Write(sb.Bytes())
		})
		return name + "(" + x + ")"
	}
	return "true"
}

func isNilable(gt types.Type) bool {
	switch gt.Underlying().(type) {
	case *types.Pointer, *types.Slice, *types.Map:
		return true
	}
	return false
}

func defaultLit(d *Default, t *TT) (string, bool) {
	switch d.Kind {
	case "bool":
		return strconv.FormatBool(d.B), t.K == "bool"
	case "int":
		switch t.K {
		case "i8", "i16", "i32", "i64", "enum":
			return strconv.FormatInt(d.I, 10), true
		case "double":
			return strconv.FormatFloat(float64(d.I), 'g', -1, 64), true
		case "bool":
			return strconv.FormatBool(d.I == 1), true
		}
	case "enum":
		return strconv.FormatInt(d.I, 10), t.K == "enum" || t.K == "i32"
	case "double":
		return strconv.FormatFloat(d.D, 'g', -1, 64), t.K == "double"
	case "string":
		return strconv.Quote(d.S), t.K == "string"
	}
	return "", false
}

// EmitPackage returns the adapter source for one generated package.
func (e *Emitter) EmitPackage(mod *Module) ([]byte, error) {
	ip := e.ModPkg[mod.Path]
	e.cur = e.Pkgs[ip]
	if e.cur == nil {
		return nil, fmt.Errorf("package %s not loaded", ip)
	}
	e.imports = map[string]string{}
	e.helpers = map[string]string{}
	e.body.Reset()
	e.hbuf.Reset()
	var regs bytes.Buffer
	for _, ty := range mod.Types {
		if ty.Kind != "struct" && ty.Kind != "union" && ty.Kind != "exception" && ty.Kind != "result01" {
			continue
		}
		if ty.Kind == "union" && len(ty.Fields) == 0 {
			// a union declared without members has exactly one value (no member set);
			// the generator accepts and round-trips it by design (gen/field.go:
			// `and .IsUnion (len .Fields)`; gen/struct_test.go relies on it), and
			// "exactly one member" cannot be demanded of it
			ty.Kind = "struct"
		}
		gname := goNameIn(e.cur, ty.Name, ty.Fields)
		if gname == "" {
			e.Skipped = append(e.Skipped, mod.Name+"."+ty.Name+": Go type not found under that name")
			continue
		}
		obj := e.cur.Scope().Lookup(gname)
		st, ok := obj.Type().Underlying().(*types.Struct)
		if !ok || st.NumFields() != len(ty.Fields) {
			e.Skipped = append(e.Skipped, mod.Name+"."+ty.Name+": field count differs between schema and Go struct")
			continue
		}
		name := gname
		complexDefault := false
		// ZzAny
		e.pf("func ZzAnyOrNil_%s(d int) *%s {\n\tif d <= 0 || zzlib.VerifChoice(3) == 0 {\n\t\treturn nil\n\t}\n\treturn ZzAny_%s(d)\n}\n\n", name, name, name)
		nNil := 0
		for i := range ty.Fields {
			if isNilable(st.Field(i).Type()) {
				nNil++
			}
		}
		e.pf("func ZzAny_%s(d int) *%s {\n\tif d <= 0 {\n\t\treturn nil\n\t}\n\tv := &%s{}\n\tpat := zzlib.Pattern(%d, d)\n\t_ = pat\n", name, name, name, nNil)
		ni := 0
		for i, f := range ty.Fields {
			gf := st.Field(i)
			gt := gf.Type()
			if !isNilable(gt) {
				e.pf("\tv.%s = %s\n", gf.Name(), e.anyExpr(f.Type, gt, "d", "true"))
				continue
			}
			free := fmt.Sprintf("pat.Free(%d)", ni)
			if pt, isPtr := gt.Underlying().(*types.Pointer); isPtr && f.Type.K != "struct" {
				e.pf("\tif pat.Has(%d) {\n\t\tx := %s\n\t\tv.%s = &x\n\t}\n", ni, e.anyExpr(f.Type, pt.Elem(), "d", free), gf.Name())
			} else if f.Type.K == "struct" {
				e.pf("\tif pat.Has(%d) {\n\t\tv.%s = (%s)(%s(d - 1))\n\t}\n", ni, gf.Name(), e.ts(gt), e.structFn("ZzAny_", f.Type))
			} else {
				e.pf("\tif pat.Has(%d) {\n\t\tv.%s = %s\n\t}\n", ni, gf.Name(), e.anyExpr(f.Type, gt, "d", free))
			}
			ni++
		}
		e.pf("\treturn v\n}\n\n")
		// ZzTree
		e.pf("func ZzTree_%s(v *%s) *zzlib.Node {\n\tn := zzlib.Struct()\n\tif v == nil {\n\t\treturn n\n\t}\n", name, name)
		for i, f := range ty.Fields {
			gf := st.Field(i)
			gt := gf.Type()
			if pt, isPtr := gt.Underlying().(*types.Pointer); isPtr && f.Type.K != "struct" {
				e.pf("\tif v.%s != nil {\n\t\tn.AddField(%d, %s)\n\t}\n", gf.Name(), f.ID, e.treeExpr(f.Type, pt.Elem(), "*v."+gf.Name()))
			} else if isNilable(gt) && !(f.Required && f.Type.K == "list") {
				e.pf("\tif v.%s != nil {\n\t\tn.AddField(%d, %s)\n\t}\n", gf.Name(), f.ID, e.treeExpr(f.Type, gt, "v."+gf.Name()))
			} else {
				e.pf("\tn.AddField(%d, %s)\n", f.ID, e.treeExpr(f.Type, gt, "v."+gf.Name()))
			}
		}
		e.pf("\treturn n\n}\n\n")
		// ZzValid
		e.pf("func ZzValid_%s(v *%s) bool {\n\tif v == nil {\n\t\treturn false\n\t}\n", name, name)
		if ty.Kind == "union" || ty.Kind == "result01" {
			e.pf("\tcnt := 0\n")
		}
		for i, f := range ty.Fields {
			gf := st.Field(i)
			gt := gf.Type()
			x := "v." + gf.Name()
			if pt, isPtr := gt.Underlying().(*types.Pointer); isPtr && f.Type.K != "struct" {
				_ = pt
				if ty.Kind == "union" || ty.Kind == "result01" {
					e.pf("\tif %s != nil {\n\t\tcnt++\n\t}\n", x)
				}
				continue
			}
			if isNilable(gt) {
				if f.Required && f.Type.K != "list" {
					// a nil required list is an empty list for the generator (by design)
					e.pf("\tif %s == nil {\n\t\treturn false\n\t}\n", x)
				}
				e.pf("\tif %s != nil {\n", x)
				if ty.Kind == "union" || ty.Kind == "result01" {
					e.pf("\t\tcnt++\n")
				}
				e.pf("\t\tif !%s {\n\t\t\treturn false\n\t\t}\n\t}\n", e.validExpr(f.Type, gt, x))
			}
		}
		if ty.Kind == "union" {
			e.pf("\tif cnt != 1 {\n\t\treturn false\n\t}\n")
		}
		if ty.Kind == "result01" {
			e.pf("\tif cnt > 1 {\n\t\treturn false\n\t}\n")
		}
		e.pf("\treturn true\n}\n\n")
		// ZzDefaults
		e.pf("func ZzDefaults_%s(v *%s) {\n\tif v == nil {\n\t\treturn\n\t}\n", name, name)
		for i, f := range ty.Fields {
			gf := st.Field(i)
			gt := gf.Type()
			if f.Default != nil {
				lit, ok := defaultLit(f.Default, f.Type)
				pt, isPtr := gt.Underlying().(*types.Pointer)
				if !ok || !isPtr || f.Type.K == "struct" {
					complexDefault = true
				} else {
					e.pf("\tif v.%s == nil {\n\t\tx := (%s)(%s)\n\t\tv.%s = &x\n\t}\n", gf.Name(), e.ts(pt.Elem()), lit, gf.Name())
				}
			}
			if f.Type.K == "struct" {
				p, _ := e.structPkg(f.Type)
				q := e.qual(p)
				if q != "" {
					q += "."
				}
				gn := e.goName(f.Type)
				e.pf("\t%sZzDefaults_%s((*%s%s)(v.%s))\n", q, gn, q, gn, gf.Name())
			}
		}
		e.pf("}\n\n")
		e.pf("func ZzClear_%s(v *%s, i int) bool {\n\tswitch i {\n", name, name)
		for i := range ty.Fields {
			gf := st.Field(i)
			if isNilable(gf.Type()) {
				e.pf("\tcase %d:\n\t\tv.%s = nil\n\t\treturn true\n", i, gf.Name())
			}
		}
		e.pf("\t}\n\treturn false\n}\n\n")
		fmt.Fprintf(&regs, "\tzzlib.RegisterType(&zzlib.Type{Name: %q, Kind: %q, ComplexDefault: %v, NFields: %d,\n", mod.Name+"."+name, ty.Kind, complexDefault, len(ty.Fields))
		fmt.Fprintf(&regs, "\t\tAny:      func(d int) zzlib.Codec { return ZzAny_%s(d) },\n", name)
		fmt.Fprintf(&regs, "\t\tNil:      func() zzlib.Codec { return (*%s)(nil) },\n", name)
		fmt.Fprintf(&regs, "\t\tClear:    func(c zzlib.Codec, i int) bool { return ZzClear_%s(c.(*%s), i) },\n", name, name)
		fmt.Fprintf(&regs, "\t\tFresh:    func() zzlib.Codec { return &%s{} },\n", name)
		fmt.Fprintf(&regs, "\t\tTree:     func(c zzlib.Codec) *zzlib.Node { return ZzTree_%s(c.(*%s)) },\n", name, name)
		fmt.Fprintf(&regs, "\t\tValid:    func(c zzlib.Codec) bool { return ZzValid_%s(c.(*%s)) },\n", name, name)
		fmt.Fprintf(&regs, "\t\tDefaults: func(c zzlib.Codec) { ZzDefaults_%s(c.(*%s)) },\n", name, name)
		fmt.Fprintf(&regs, "\t\tEquals:   func(a, b zzlib.Codec) bool { return a.(*%s).Equals(b.(*%s)) },\n", name, name)
		fmt.Fprintf(&regs, "\t\tIsNil:    func(c zzlib.Codec) bool { return c.(*%s) == nil },\n", name)
		fmt.Fprintf(&regs, "\t\tFieldIDs: []int16{")
		for _, f := range ty.Fields {
			fmt.Fprintf(&regs, "%d, ", f.ID)
		}
		fmt.Fprintf(&regs, "},\n\t\tFieldTypes: []wire.Type{")
		for _, f := range ty.Fields {
			fmt.Fprintf(&regs, "%s, ", wireType(f.Type))
		}
		fmt.Fprintf(&regs, "},\n\t\tFieldRequired: []bool{")
		for _, f := range ty.Fields {
			fmt.Fprintf(&regs, "%v, ", f.Required)
		}
		fmt.Fprintf(&regs, "},\n\t})\n")
	}
	// constants: the generated Go constant/variable must equal the IDL literal
	for _, c := range mod.Consts {
		obj := e.cur.Scope().Lookup(c.Name)
		if obj == nil {
			n := candidates(c.Name)
			for _, cand := range n {
				if o := e.cur.Scope().Lookup(cand); o != nil {
					obj = o
					break
				}
			}
		}
		lit, ok := defaultLit(c.Value, c.Type)
		if obj == nil || !ok {
			e.Skipped = append(e.Skipped, mod.Name+"."+c.Name+": constant not checked (no Go object or non-primitive value)")
			continue
		}
		var cmp string
		switch c.Type.K {
		case "string":
			cmp = fmt.Sprintf("string(%s) == %s", obj.Name(), lit)
		case "double":
			cmp = fmt.Sprintf("float64(%s) == float64(%s)", obj.Name(), lit)
		case "bool":
			cmp = fmt.Sprintf("bool(%s) == %s", obj.Name(), lit)
		default:
			cmp = fmt.Sprintf("int64(%s) == int64(%s)", obj.Name(), lit)
		}
		fmt.Fprintf(&regs, "\tzzlib.RegisterConst(%q, func() bool { return %s })\n", mod.Name+"."+c.Name, cmp)
	}
	var out bytes.Buffer
	fmt.Fprintf(&out, "//go:build verif\n\n// Code generated by /verif/engine/gengen from the schema and the Go types of the generated package. DO NOT EDIT.\n\npackage %s\n\nimport (\n\t\"math\"\n\n\t%q\n\t\"go.uber.org/thriftrw/wire\"\n", e.cur.Name(), e.LibPath)
	var ips []string
	for p := range e.imports {
		ips = append(ips, p)
	}
	sort.Strings(ips)
	for _, p := range ips {
		fmt.Fprintf(&out, "\t%s %q\n", e.imports[p], p)
	}
	fmt.Fprintf(&out, ")\n\nvar _ = math.Float64bits\nvar _ = wire.TBool\nvar _ = zzlib.Leaf\n\n")
	out.Write(e.body.Bytes())
	out.Write(e.hbuf.Bytes())
	fmt.Fprintf(&out, "func init() {\n%s}\n", regs.String())
	src := out.String()
	// NilToNil needs typed nil handling: ZzAny returns *T which may be nil.
	return []byte(strings.ReplaceAll(src, "\t\n", "\n")), nil
}

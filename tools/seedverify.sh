#!/bin/bash
# usage: seedverify.sh <ID> <n> — confirms in the scratch worktree that the change
# builds, the existing tests pass, the demo passes without and fails with it.
# Demo kinds: scratch module (go.mod in demo dir), run.sh, or *_test.go files to copy
# (destination package taken from the README's cp lines).
set -u
ID=$1; N=$2; WT=/tmp/wt/$ID; OUT=/tmp/wtout/$ID; DEMO=$OUT/m${N}_demo
export GOFLAGS=-mod=mod GOPROXY=off GOSUMDB=off GOTOOLCHAIN=local
cd $WT && git checkout -q -- . && git clean -fdq
rundemo() {
  if [ -f $DEMO/run.sh ]; then (timeout 600 bash $DEMO/run.sh $WT >/tmp/demo.$ID.$N.log 2>&1; rc=$?; if grep -q "^FAIL\|--- FAIL\|DEMO FAIL" /tmp/demo.$ID.$N.log; then rc=1; fi; exit $rc); return $?; fi
  if [ -f $DEMO/go.mod ]; then (cd $DEMO && timeout 600 go test -vet=off -count=1 ./... >/tmp/demo.$ID.$N.log 2>&1); return $?; fi
  # copy-in style: cp lines in README
  local rc=0; local files=""
  while read -r src dst; do cp "$src" "$WT/$dst"; files="$files $WT/$dst/$(basename $src)"; pk="$pk ./$dst"; done < <(grep -o "cp /tmp/wtout/$ID/m${N}_demo/[A-Za-z0-9_]*_test.go [a-z/]*" $DEMO/README | awk '{print $2, $3}' | sort -u)
  (cd $WT && timeout 600 go test -vet=off -count=1 -run "TestC[0-9]*M$N" $pk >/tmp/demo.$ID.$N.log 2>&1); rc=$?
  rm -f $files; return $rc
}
pk=""
rundemo; A=$?
git -C $WT apply $OUT/m$N.diff || { echo "$ID m$N: APPLY FAILED"; exit 2; }
(cd $WT && go build ./... >/tmp/build.$ID.$N.log 2>&1); B=$?
(cd $WT && timeout 1500 go test -vet=off -count=1 ./... 2>&1 | grep -v "no test files" | grep -v "^ok" > /tmp/tests.$ID.$N.log); T=$(wc -l < /tmp/tests.$ID.$N.log)
pk=""
rundemo; C=$?
cd $WT && git checkout -q -- . && git clean -fdq
echo "$ID m$N: demo-clean-exit=$A build-exit=$B failing-test-lines=$T demo-mutant-exit=$C"

#!/bin/bash
# usage: seedcheck.sh <property id> <diff file> [tier] — applies a seeded change to a
# scratch worktree of /repo (never to /repo itself, so that other checks can run at the
# same time), runs the property's check against it with evidence redirected, and removes
# the worktree.
set -u
ID=$1; DIFF=$2; TIER=${3:-quick}
WT=$(mktemp -d /tmp/repo-mut.XXXXXX); rmdir $WT
git -C /repo worktree add -q --detach $WT HEAD || exit 2
trap 'git -C /repo worktree remove --force '$WT' 2>/dev/null; rm -rf '$WT' /tmp/evmut.$$' EXIT
# the worktree has /repo's committed state; carry over uncommitted changes (there should be none)
git -C $WT apply "$DIFF" || { echo "APPLY FAILED"; exit 2; }
mkdir -p /tmp/evmut.$$
VERIF_REPO=$WT VERIF_EVIDENCE_DIR=/tmp/evmut.$$ timeout ${SEED_TIMEOUT:-1500} /verif/bin/symgo check "$ID" --tier "$TIER" 2>&1 | grep -v "^\s\s\s\s" | grep "VIOLATION\|KNOWN\|$ID:\|reason\|INCOMPLETE" | cut -c1-300 | head -12
echo "exit=${PIPESTATUS[0]}"

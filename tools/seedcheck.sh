#!/bin/bash
# usage: seedcheck.sh <property id> <diff file> [tier] — applies a seeded change to /repo,
# runs the property's check, and always restores /repo.
set -u
ID=$1; DIFF=$2; TIER=${3:-quick}
cd /repo || exit 2
if [ -n "$(git status --porcelain)" ]; then echo "REPO NOT CLEAN"; exit 2; fi
git apply "$DIFF" || { echo "APPLY FAILED"; exit 2; }
# the evidence file must describe the unchanged tree: keep it aside
cp /verif/evidence/$ID.json /tmp/evidence.$ID.keep 2>/dev/null
trap 'git -C /repo checkout -- . ; git -C /repo clean -fdq; [ -f /tmp/evidence.'$ID'.keep ] && mv /tmp/evidence.'$ID'.keep /verif/evidence/'$ID'.json' EXIT
timeout ${SEED_TIMEOUT:-1500} /verif/bin/symgo check "$ID" --tier "$TIER" 2>&1 | grep -v "^\s\s\s\s" | grep "VIOLATION\|KNOWN\|$ID:\|reason" | cut -c1-300 | head -12
echo "exit=${PIPESTATUS[0]}"

#!/usr/bin/env python3
# usage: seedkeep.py <ID> <n> <caught-by: comma list or "none"> <detail>
import json, os, shutil, sys
ID, n, caught, detail = sys.argv[1], sys.argv[2], sys.argv[3], sys.argv[4]
dn = sys.argv[5] if len(sys.argv) > 5 else n  # number under which it is kept
src = f"/tmp/wtout/{ID}"
dst = f"/verif/seeded/{ID}-m{dn}"
if os.path.exists(dst):
    shutil.rmtree(dst)
os.makedirs(dst)
shutil.copy(f"{src}/m{n}.diff", f"{dst}/patch.diff")
shutil.copytree(f"{src}/m{n}_demo", f"{dst}/demo")
a = json.load(open(f"{src}/m{n}.json"))
meta = {
    "property": ID,
    "breaks": a.get("breaks"),
    "needs": a.get("needs"),
    "author": "independent sub-agent given only the property text and a scratch worktree",
    "author_ran": a.get("ran"),
    "confirmed_by_me": "tools/seedverify.sh %s %s in the scratch worktree: demo passes on the clean tree, `go build ./...` ok, `go test -vet=off -count=1 ./...` has no failing package with the change, demo fails with the change" % (ID, n),
    "checks_run": "tools/seedcheck.sh (round 3: patch.diff applied to a scratch worktree of /repo, `VERIF_REPO=<worktree> symgo check <id> --tier quick`, worktree removed; rounds 1-2: applied to /repo itself and undone)",
    "caught_by": [] if caught == "none" else caught.split(","),
    "detail": detail,
}
# large regenerated code in patches is kept (it is part of what a developer would commit)
json.dump(meta, open(f"{dst}/meta.json", "w"), indent=1)
print("kept", dst, os.path.getsize(f"{dst}/patch.diff"), "bytes")

//go:build verif

package compile

import (
	"go.uber.org/thriftrw/ast"
)

func init() {
	verifHarnesses["h09"] = h09
	verifHarnesses["h09_witness"] = h09_witness
}

func zzModule() *Module {
	return &Module{
		Name:       "m",
		ThriftPath: "/m.thrift",
		Includes:   make(map[string]*IncludedModule),
		Constants:  make(map[string]*Constant),
		Types:      make(map[string]TypeSpec),
		Services:   make(map[string]*ServiceSpec),
	}
}

func zzOptInt(v int) *int { return &v }

func zzInRange(v int64, bits uint) bool {
	lo := -(int64(1) << (bits - 1))
	hi := int64(1)<<(bits-1) - 1
	// written without && so that it stays one term
	return verifB2I(v >= lo)&verifB2I(v <= hi) == 1
}

// h09: a small program whose every number is symbolic. Whenever the real
// gather+link accept it, every compiled number equals the number in the
// source and lies in the range of its Thrift type.
func h09() {
	part := verifParam("part")
	nonStrict := verifBool()
	c := newCompiler()
	c.nonStrict = nonStrict
	m := zzModule()
	prog := &ast.Program{}

	var fields []*ast.Field
	var enumItems []*ast.EnumItem
	var cvals [6]int64
	ctypes := [6]ast.Type{
		ast.BaseType{ID: ast.I8TypeID}, ast.BaseType{ID: ast.I16TypeID}, ast.BaseType{ID: ast.I32TypeID},
		ast.BaseType{ID: ast.I64TypeID}, ast.TypeReference{Name: "E"}, ast.BaseType{ID: ast.I8TypeID},
	}
	cnames := [6]string{"c8", "c16", "c32", "c64", "ce", "unused"}

	switch part {
	case 0: // struct field ids
		for i := 0; i < verifParam("nfields"); i++ {
			f := &ast.Field{Name: []string{"a", "b", "c"}[i], Type: ast.BaseType{ID: ast.I32TypeID}, Requiredness: ast.Optional, Line: i + 2}
			if verifBool() {
				f.IDUnset = true
			} else {
				f.ID = verifInt()
			}
			fields = append(fields, f)
		}
		prog.Definitions = append(prog.Definitions, &ast.Struct{Name: "S", Type: ast.StructType, Fields: fields, Line: 1})
	case 1: // enum values
		for i := 0; i < 3; i++ {
			it := &ast.EnumItem{Name: []string{"X", "Y", "Z"}[i], Line: i + 2}
			if verifBool() {
				it.Value = zzOptInt(verifInt())
			}
			enumItems = append(enumItems, it)
		}
		prog.Definitions = append(prog.Definitions, &ast.Enum{Name: "E", Items: enumItems, Line: 1})
	case 2: // integer constants and a field default of each integer type, plus an enum-typed constant
		e1, e2 := verifInt(), verifInt()
		enumItems = []*ast.EnumItem{{Name: "X", Value: zzOptInt(e1), Line: 2}, {Name: "Y", Value: zzOptInt(e2), Line: 3}}
		prog.Definitions = append(prog.Definitions, &ast.Enum{Name: "E", Items: enumItems, Line: 1})
		for i := 0; i < 5; i++ {
			cvals[i] = verifI64()
			prog.Definitions = append(prog.Definitions, &ast.Constant{Name: cnames[i], Type: ctypes[i], Value: ast.ConstantInteger(cvals[i]), Line: 10 + i})
		}
		dv := verifI64()
		cvals[5] = dv
		fields = []*ast.Field{{ID: 1, Name: "d", Type: ast.BaseType{ID: ast.I16TypeID}, Requiredness: ast.Optional, Default: ast.ConstantInteger(dv), Line: 21}}
		prog.Definitions = append(prog.Definitions, &ast.Struct{Name: "S", Type: ast.StructType, Fields: fields, Line: 20})
	}

	// The effective id of every field, computed here from the source alone
	// (wide integers): an explicit id stands for itself; in non-strict mode a
	// field without id gets the next id below the last negative one seen
	// (starting at -1). compileFields writes ids back into the AST, so this
	// must be taken before compiling.
	var wantIDs []int
	var wantUnset []bool
	next := -1
	for _, f := range fields {
		id := f.ID
		if f.ID < 0 && !f.IDUnset {
			next = f.ID - 1
		} else if f.IDUnset {
			id = next
			next--
		}
		wantIDs = append(wantIDs, id)
		wantUnset = append(wantUnset, f.IDUnset)
	}

	err := c.gather(m, prog)
	if err == nil {
		err = c.link(m)
	}
	verifObserveBool("accepted", err == nil)
	if err != nil {
		verifReached("end")
		return
	}

	switch part {
	case 0:
		s := m.Types["S"].(*StructSpec)
		verifAssert(len(s.Fields) == len(fields), "field-count")
		for i, f := range s.Fields {
			if !wantUnset[i] || nonStrict {
				// (an unset id in strict mode is rejected; nothing to compare)
				verifAssert(int(f.ID) == wantIDs[i], "field-id-equals-source")
			}
			for j := 0; j < i; j++ {
				verifAssert(s.Fields[j].ID != f.ID, "field-ids-unique")
			}
		}
	case 1:
		e := m.Types["E"].(*EnumSpec)
		verifAssert(len(e.Items) == 3, "enum-item-count")
		prev := -1
		for i, it := range e.Items {
			want := prev + 1
			if enumItems[i].Value != nil {
				want = *enumItems[i].Value
			}
			prev = want
			verifAssert(int(it.Value) == want, "enum-value-equals-source")
		}
	case 2:
		bits := [4]uint{8, 16, 32, 64}
		for i := 0; i < 4; i++ {
			cv, ok := m.Constants[cnames[i]].Value.(ConstantInt)
			verifAssert(ok, "const-kind")
			verifAssert(int64(cv) == cvals[i], "const-equals-source")
			verifAssert(zzInRange(int64(cv), bits[i]), "const-in-range")
		}
		ref, ok := m.Constants["ce"].Value.(EnumItemReference)
		verifAssert(ok, "enum-const-kind")
		verifAssert(int64(ref.Item.Value) == cvals[4], "enum-const-equals-source")
		s := m.Types["S"].(*StructSpec)
		dv, ok := s.Fields[0].Default.(ConstantInt)
		verifAssert(ok, "default-kind")
		verifAssert(int64(dv) == cvals[5], "default-equals-source")
		verifAssert(zzInRange(int64(dv), 16), "default-in-range")
	}
	verifReached("end")
}

func h09_witness() {
	h09()
	verifAssert(false, "reachable")
}

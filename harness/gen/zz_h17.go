//go:build verif

package gen

import (
	"errors"
	"os"
	"path/filepath"
	"strings"

	"go.uber.org/thriftrw/compile"
	"go.uber.org/thriftrw/internal/plugin"
	"go.uber.org/thriftrw/plugin/api"
)

func init() {
	verifHarnesses["h17"] = h17
	verifHarnesses["h17_witness"] = h17_witness
}

// Environment recorders. generate.go is loaded with os.MkdirAll/os.WriteFile
// and generateModule textually redirected to these (see the check's Rewrites).
var (
	zzWrites     []string
	zzMkdirs     []string
	zzFailModule bool
)

func zzMkdirAll(path string, perm os.FileMode) error {
	zzMkdirs = append(zzMkdirs, path)
	return nil
}

func zzWriteFile(name string, data []byte, perm os.FileMode) error {
	zzWrites = append(zzWrites, name)
	return nil
}

// zzGenerateModule stands in for template expansion: same output path as the
// real generateModule computes, fixed contents, or a failure.
func zzGenerateModule(m *compile.Module, i thriftPackageImporter, builder *generateServiceBuilder, o *Options) (string, []byte, error) {
	if zzFailModule {
		return "", nil, errors.New("stub: generation failed")
	}
	packageRelPath, err := i.RelativePackage(m.ThriftPath)
	if err != nil {
		return "", nil, err
	}
	return filepath.Join(packageRelPath, filepath.Base(packageRelPath)+".go"), []byte("core"), nil
}

// zzSG is a plugin's generator: returns the configured files or fails.
type zzSG struct {
	files map[string][]byte
	fail  bool
}

func (s *zzSG) Generate(*api.GenerateServiceRequest) (*api.GenerateServiceResponse, error) {
	if s.fail {
		return nil, errors.New("stub: plugin failed")
	}
	return &api.GenerateServiceResponse{Files: s.files}, nil
}

// h17: plugin file paths are arbitrary strings; any one component may fail.
func h17() {
	const out = "/out"
	l := verifParam("l")
	nplug := verifParam("plugins")
	nfiles := verifParam("files")
	zzWrites, zzMkdirs, zzFailModule = nil, nil, false

	fault := verifChoice(nplug + 2) // 0 none, 1 core generator, 2+k plugin k
	zzFailModule = fault == 1
	var msg plugin.MultiServiceGenerator
	for p := 0; p < nplug; p++ {
		sg := &zzSG{files: map[string][]byte{}, fail: fault == 2+p}
		cnt := 1 + verifChoice(nfiles)
		for f := 0; f < cnt; f++ {
			ln := l
			if verifParam("fixedlen") == 0 {
				ln = 1 + verifChoice(l)
			}
			path := verifString(ln)
			for k := range sg.files {
				verifAssume(k != path) // map keys of one response are distinct by construction
			}
			sg.files[path] = []byte("plugin")
		}
		msg = append(msg, plugin.ZzNewServiceGenerator([]string{"p0", "p1"}[p], sg))
	}

	m := &compile.Module{
		Name:       "foo",
		ThriftPath: "/root/foo.thrift",
		Includes:   make(map[string]*compile.IncludedModule),
		Constants:  make(map[string]*compile.Constant),
		Types:      make(map[string]compile.TypeSpec),
		Services:   make(map[string]*compile.ServiceSpec),
	}
	o := &Options{OutputDir: out, ThriftRoot: "/root", PackagePrefix: "p", Plugin: CodeGenerator{ServiceGenerator: msg}, NoEmbedIDL: true, NoVersionCheck: true}
	err := Generate(m, o)
	verifObserveBool("err", err != nil)
	verifObserveInt("writes", int64(len(zzWrites)))

	if fault != 0 {
		verifAssert(err != nil, "failure-reported")
		verifAssert(len(zzWrites) == 0, "nothing-written-on-failure")
		verifAssert(len(zzMkdirs) == 0, "nothing-created-on-failure")
	}
	if err != nil {
		verifAssert(len(zzWrites) == 0, "nothing-written-on-error")
	}
	seen := map[string]bool{}
	for _, w := range zzWrites {
		c := filepath.Clean(w)
		inside := c == out || strings.HasPrefix(c, out+"/")
		verifAssert(inside, "write-confined-to-output-dir")
		verifAssert(!seen[c], "no-two-writes-to-one-file")
		seen[c] = true
	}
	verifReached("end")
}

func h17_witness() {
	h17()
	verifAssert(false, "reachable")
}

//go:build verif

package gen

import (
	"errors"
	"os"
	"path/filepath"
	"strings"

	"go.uber.org/thriftrw/compile"
	"go.uber.org/thriftrw/internal/plugin"
	"go.uber.org/thriftrw/plugin/api"
)

func init() {
	verifHarnesses["h17"] = h17
	verifHarnesses["h17_witness"] = h17_witness
}

// Environment recorders. generate.go is loaded with os.MkdirAll/os.WriteFile
// and generateModule textually redirected to these (see the check's Rewrites).
var (
	zzWrites     []string
	zzMkdirs     []string
	zzFailModule bool
)

func zzMkdirAll(path string, perm os.FileMode) error {
	zzMkdirs = append(zzMkdirs, path)
	return nil
}

func zzWriteFile(name string, data []byte, perm os.FileMode) error {
	zzWrites = append(zzWrites, name)
	return nil
}

// zzGenerateModule stands in for template expansion: same output path as the
// real generateModule computes, fixed contents, or a failure.
func zzGenerateModule(m *compile.Module, i thriftPackageImporter, builder *generateServiceBuilder, o *Options) (string, []byte, error) {
	if zzFailModule {
		return "", nil, errors.New("stub: generation failed")
	}
	packageRelPath, err := i.RelativePackage(m.ThriftPath)
	if err != nil {
		return "", nil, err
	}
	return filepath.Join(packageRelPath, filepath.Base(packageRelPath)+".go"), []byte("core"), nil
}

// zzSG is a plugin's generator: returns the configured files or fails.
type zzSG struct {
	files map[string][]byte
	fail  bool
}

func (s *zzSG) Generate(*api.GenerateServiceRequest) (*api.GenerateServiceResponse, error) {
	if s.fail {
		return nil, errors.New("stub: plugin failed")
	}
	return &api.GenerateServiceResponse{Files: s.files}, nil
}

// h17: plugin file paths are arbitrary strings; any one component may fail.
func h17() {
	const out = "/out"
	l := verifParam("l")
	nplug := verifParam("plugins")
	nfiles := verifParam("files")
	zzWrites, zzMkdirs, zzFailModule = nil, nil, false

	fault := verifChoice(nplug + 2) // 0 none, 1 core generator, 2+k plugin k
	zzFailModule = fault == 1
	var msg plugin.MultiServiceGenerator
	var allPaths [][]string
	for p := 0; p < nplug; p++ {
		sg := &zzSG{files: map[string][]byte{}, fail: fault == 2+p}
		cnt := 1 + verifChoice(nfiles)
		for f := 0; f < cnt; f++ {
			ln := l
			if verifParam("fixedlen") == 0 {
				ln = 1 + verifChoice(l)
			}
			path := verifString(ln)
			if verifParam("second") == 1 {
				// all but the last two bytes fixed to those of the core path
				path = "foo/foo." + verifString(2)
			}
			for k := range sg.files {
				verifAssume(k != path) // map keys of one response are distinct by construction
			}
			sg.files[path] = []byte("plugin")
			for len(allPaths) <= p {
				allPaths = append(allPaths, nil)
			}
			allPaths[p] = append(allPaths[p], path)
		}
		if verifParam("second") == 1 {
			// a further, harmless file whose name sorts after the core path
			extra := "zzz/extra" + []string{"0", "1"}[p] + ".go"
			sg.files[extra] = []byte("plugin")
			allPaths[p] = append(allPaths[p], extra)
		}
		// two instances of one plugin carry the same name (-p "x --a" -p "x --b")
		pname := []string{"p0", "p1"}[p]
		if p == 1 && verifChoice(2) == 1 {
			pname = "p0"
		}
		msg = append(msg, plugin.ZzNewServiceGenerator(pname, sg))
	}

	m := &compile.Module{
		Name:       "foo",
		ThriftPath: "/root/foo.thrift",
		Includes:   make(map[string]*compile.IncludedModule),
		Constants:  make(map[string]*compile.Constant),
		Types:      make(map[string]compile.TypeSpec),
		Services:   make(map[string]*compile.ServiceSpec),
	}
	o := &Options{OutputDir: out, ThriftRoot: "/root", PackagePrefix: "p", Plugin: CodeGenerator{ServiceGenerator: msg}, NoEmbedIDL: true, NoVersionCheck: true}
	switch verifParam("mode") {
	case 1:
		o.NoRecurse = true
	case 2:
		o.OutputFile = "single.go"
	}
	err := Generate(m, o)
	verifObserveBool("err", err != nil)
	verifObserveInt("writes", int64(len(zzWrites)))

	if fault != 0 {
		verifAssert(err != nil, "failure-reported")
		verifAssert(len(zzWrites) == 0, "nothing-written-on-failure")
		verifAssert(len(zzMkdirs) == 0, "nothing-created-on-failure")
	}
	if err != nil {
		verifAssert(len(zzWrites) == 0, "nothing-written-on-error")
	}
	if err == nil {
		// two plugin instances (same name or not) producing the same path must
		// have been reported
		same := 0
		for p := 0; p < len(allPaths); p++ {
			for q := p + 1; q < len(allPaths); q++ {
				for _, a := range allPaths[p] {
					for _, b := range allPaths[q] {
						if len(a) == len(b) {
							e := 1
							for i := 0; i < len(a); i++ {
								e &= verifB2I(a[i] == b[i])
							}
							same |= e
						}
					}
				}
			}
		}
		verifAssert(same == 0, "cross-plugin-duplicate-reported")
		// a plugin file that resolves to the core generator's file must have
		// been reported
		for _, ps := range allPaths {
			for _, a := range ps {
				verifAssert(filepath.Join(out, a) != out+"/foo/foo.go", "plugin-vs-core-duplicate-reported")
			}
		}
	}
	seen := map[string]bool{}
	for _, w := range zzWrites {
		c := filepath.Clean(w)
		inside := c == out || strings.HasPrefix(c, out+"/")
		verifAssert(inside, "write-confined-to-output-dir")
		verifAssert(!seen[c], "no-two-writes-to-one-file")
		seen[c] = true
	}
	verifReached("end")
}

func h17_witness() {
	h17()
	verifAssert(false, "reachable")
}

//go:build verif

package wire

import "math"

func init() {
	verifHarnesses["h14"] = h14
	verifHarnesses["h14t"] = h14t
	verifHarnesses["h14r"] = h14r
	verifHarnesses["h14s"] = h14s
	verifHarnesses["h14_witness"] = h14_witness
}

// zzV is a harness-side logical value.
type zzV struct {
	t      Type
	num    uint64
	bin    []byte
	ids    []int16
	kids   []*zzV
	vals   []*zzV
	kt, vt Type
}

var zzLeafT = [...]Type{TBool, TI8, TDouble, TI16, TI32, TI64, TBinary}
var zzAllT = [...]Type{TBool, TI8, TDouble, TI16, TI32, TI64, TBinary, TStruct, TMap, TSet, TList}

func zzPickT(depth int) Type {
	if depth <= 0 {
		return zzLeafT[verifChoice(len(zzLeafT))]
	}
	return zzAllT[verifChoice(len(zzAllT))]
}

func zzCnt(budget *int, k, per int) int {
	max := *budget / per
	if max > k {
		max = k
	}
	if max < 0 {
		max = 0
	}
	return verifChoice(max + 1)
}

// zzLeaves fills the leaves of a node of scalar type with fresh symbolic
// values (no NaN: the property excludes it).
func zzLeaf(n *zzV, maxBin int, binLen int) {
	switch n.t {
	case TBool:
		if verifBool() {
			n.num = 1
		}
	case TI8:
		n.num = uint64(uint8(verifI8()))
	case TI16:
		n.num = uint64(uint16(verifI16()))
	case TI32:
		n.num = uint64(uint32(verifI32()))
	case TI64:
		n.num = verifU64()
	case TDouble:
		n.num = verifU64()
		verifAssume(!verifIsNaN(math.Float64frombits(n.num)))
	case TBinary:
		l := binLen
		if l < 0 {
			l = verifChoice(maxBin + 1)
		}
		n.bin = verifBytes(l)
	}
}

func zzBuildV(t Type, depth int, budget *int, k, maxBin int) *zzV {
	*budget--
	n := &zzV{t: t}
	switch t {
	case TStruct:
		cnt := zzCnt(budget, k, 1)
		for i := 0; i < cnt; i++ {
			id := verifI16()
			for _, o := range n.ids {
				verifAssume(o != id)
			}
			n.ids = append(n.ids, id)
			n.kids = append(n.kids, zzBuildV(zzPickT(depth-1), depth-1, budget, k, maxBin))
		}
	case TList, TSet:
		n.kt = zzPickT(depth - 1)
		cnt := zzCnt(budget, k, 1)
		for i := 0; i < cnt; i++ {
			e := zzBuildV(n.kt, depth-1, budget, k, maxBin)
			if t == TSet {
				for _, o := range n.kids {
					verifAssume(zzEq(o, e) == 0) // duplicate-free
				}
			}
			n.kids = append(n.kids, e)
		}
	case TMap:
		n.kt = zzPickT(depth - 1)
		n.vt = zzPickT(depth - 1)
		cnt := zzCnt(budget, k, 2)
		for i := 0; i < cnt; i++ {
			key := zzBuildV(n.kt, depth-1, budget, k, maxBin)
			for _, o := range n.kids {
				verifAssume(zzEq(o, key) == 0) // duplicate-free keys
			}
			n.kids = append(n.kids, key)
			n.vals = append(n.vals, zzBuildV(n.vt, depth-1, budget, k, maxBin))
		}
	default:
		zzLeaf(n, maxBin, -1)
	}
	return n
}

// zzClone builds a value of the same shape as m with fresh symbolic leaves
// and ids (binary lengths may differ by choice).
func zzClone(m *zzV, maxBin int) *zzV {
	n := &zzV{t: m.t, kt: m.kt, vt: m.vt}
	switch m.t {
	case TStruct:
		for _, c := range m.kids {
			id := verifI16()
			for _, o := range n.ids {
				verifAssume(o != id)
			}
			n.ids = append(n.ids, id)
			n.kids = append(n.kids, zzClone(c, maxBin))
		}
		// struct fields are unordered: the clone may list them in reverse
		if len(n.kids) > 1 && verifChoice(2) == 1 {
			for i, j := 0, len(n.kids)-1; i < j; i, j = i+1, j-1 {
				n.kids[i], n.kids[j] = n.kids[j], n.kids[i]
				n.ids[i], n.ids[j] = n.ids[j], n.ids[i]
			}
		}
	case TList, TSet:
		for _, c := range m.kids {
			e := zzClone(c, maxBin)
			if m.t == TSet {
				for _, o := range n.kids {
					verifAssume(zzEq(o, e) == 0)
				}
			}
			n.kids = append(n.kids, e)
		}
	case TMap:
		for i := range m.kids {
			key := zzClone(m.kids[i], maxBin)
			for _, o := range n.kids {
				verifAssume(zzEq(o, key) == 0)
			}
			n.kids = append(n.kids, key)
			n.vals = append(n.vals, zzClone(m.vals[i], maxBin))
		}
	default:
		zzLeaf(n, maxBin, -1)
	}
	return n
}

func (n *zzV) wire() Value {
	switch n.t {
	case TBool:
		return NewValueBool(n.num == 1)
	case TI8:
		return NewValueI8(int8(n.num))
	case TI16:
		return NewValueI16(int16(n.num))
	case TI32:
		return NewValueI32(int32(n.num))
	case TI64:
		return NewValueI64(int64(n.num))
	case TDouble:
		return NewValueDouble(math.Float64frombits(n.num))
	case TBinary:
		return NewValueBinary(n.bin)
	case TStruct:
		fs := make([]Field, len(n.kids))
		for i, f := range n.kids {
			fs[i] = Field{ID: n.ids[i], Value: f.wire()}
		}
		return NewValueStruct(Struct{Fields: fs})
	case TList, TSet:
		vs := make([]Value, len(n.kids))
		for i, e := range n.kids {
			vs[i] = e.wire()
		}
		l := ValueListFromSlice(n.kt, vs)
		if n.t == TSet {
			return NewValueSet(l)
		}
		return NewValueList(l)
	case TMap:
		items := make([]MapItem, len(n.kids))
		for i := range n.kids {
			items[i] = MapItem{Key: n.kids[i].wire(), Value: n.vals[i].wire()}
		}
		return NewValueMap(MapItemListFromSlice(n.kt, n.vt, items))
	}
	panic("zzV.wire: bad type")
}

// zzEq is the independent structural comparison of two logical values
// (1 = equal, 0 = not), written without short-circuit operators so that it
// stays a single term. Lists positional; sets and maps as matchings (inputs
// are duplicate-free); struct fields matched by id; doubles by ==.
func zzEq(a, b *zzV) uint64 {
	if a.t != b.t {
		return 0
	}
	switch a.t {
	case TBool, TI8, TI16, TI32, TI64:
		return uint64(verifB2I(a.num == b.num))
	case TDouble:
		return uint64(verifB2I(math.Float64frombits(a.num) == math.Float64frombits(b.num)))
	case TBinary:
		if len(a.bin) != len(b.bin) {
			return 0
		}
		var d byte
		for i := range a.bin {
			d |= a.bin[i] ^ b.bin[i]
		}
		return uint64(verifB2I(d == 0))
	case TStruct:
		if len(a.kids) != len(b.kids) {
			return 0
		}
		all := uint64(1)
		for i := range a.kids {
			var any uint64
			for j := range b.kids {
				any |= uint64(verifB2I(a.ids[i] == b.ids[j])) & zzEq(a.kids[i], b.kids[j])
			}
			all &= any
		}
		return all
	case TList:
		if a.kt != b.kt || len(a.kids) != len(b.kids) {
			return 0
		}
		all := uint64(1)
		for i := range a.kids {
			all &= zzEq(a.kids[i], b.kids[i])
		}
		return all
	case TSet:
		if a.kt != b.kt || len(a.kids) != len(b.kids) {
			return 0
		}
		all := uint64(1)
		for i := range a.kids {
			var any uint64
			for j := range b.kids {
				any |= zzEq(a.kids[i], b.kids[j])
			}
			all &= any
		}
		return all
	case TMap:
		if a.kt != b.kt || a.vt != b.vt || len(a.kids) != len(b.kids) {
			return 0
		}
		all := uint64(1)
		for i := range a.kids {
			var any uint64
			for j := range b.kids {
				any |= zzEq(a.kids[i], b.kids[j]) & zzEq(a.vals[i], b.vals[j])
			}
			all &= any
		}
		return all
	}
	return 0
}

func zzSecond(x *zzV, depth, budget, k, maxBin int) *zzV {
	if budget == 0 {
		return zzClone(x, maxBin)
	}
	b := budget
	return zzBuildV(zzPickT(depth), depth, &b, k, maxBin)
}

// h14: pairs — reflexive, symmetric, agrees with the structural oracle,
// never panics.
func h14() {
	depth := verifParam("depth")
	budget := verifParam("budget")
	k := verifParam("k")
	maxBin := verifParam("bin")
	b1 := budget
	x := zzBuildV(zzPickT(depth), depth, &b1, k, maxBin)
	y := zzSecond(x, depth, verifParam("budget2"), k, maxBin)
	want := zzEq(x, y)

	xy := ValuesAreEqual(x.wire(), y.wire())
	yx := ValuesAreEqual(y.wire(), x.wire())
	verifObserveBool("xy", xy)
	verifAssert(xy == yx, "symmetric")
	verifAssert(uint64(verifB2I(xy)) == want, "matches-structural-oracle")
	verifReached("end")
}

// h14r: reflexivity.
func h14r() {
	depth := verifParam("depth")
	budget := verifParam("budget")
	k := verifParam("k")
	maxBin := verifParam("bin")
	x := zzBuildV(zzPickT(depth), depth, &budget, k, maxBin)
	verifAssert(ValuesAreEqual(x.wire(), x.wire()), "reflexive")
	verifReached("end")
}

// h14t: triples — transitivity.
func h14t() {
	depth := verifParam("depth")
	budget := verifParam("budget")
	k := verifParam("k")
	maxBin := verifParam("bin")
	b1 := budget
	x := zzBuildV(zzPickT(depth), depth, &b1, k, maxBin)
	y := zzClone(x, maxBin)
	z := zzClone(x, maxBin)
	xy := ValuesAreEqual(x.wire(), y.wire())
	yz := ValuesAreEqual(y.wire(), z.wire())
	xz := ValuesAreEqual(x.wire(), z.wire())
	if xy && yz {
		verifAssert(xz, "transitive")
	}
	verifAssert(true, "no-panic")
	verifReached("end")
}

func h14_witness() {
	h14()
	verifAssert(false, "reachable")
}

// h14s: unhashable set elements and map keys — a struct of two scalar
// fields inside a set, a list-of-set, or as a map key; the second value has
// the same shape with independent leaves and possibly the struct's fields
// listed in the other order.
func h14s() {
	mkStruct := func() *zzV {
		n := &zzV{t: TStruct}
		for i := 0; i < 2; i++ {
			id := verifI16()
			for _, o := range n.ids {
				verifAssume(o != id)
			}
			n.ids = append(n.ids, id)
			f := &zzV{t: []Type{TI32, TBinary}[verifChoice(2)]}
			zzLeaf(f, 1, -1)
			n.kids = append(n.kids, f)
		}
		return n
	}
	var x *zzV
	switch verifChoice(3) {
	case 0:
		x = &zzV{t: TSet, kt: TStruct, kids: []*zzV{mkStruct()}}
	case 1:
		x = &zzV{t: TMap, kt: TStruct, vt: TI8, kids: []*zzV{mkStruct()}, vals: []*zzV{{t: TI8, num: uint64(uint8(verifI8()))}}}
	default:
		inner := &zzV{t: TSet, kt: TStruct, kids: []*zzV{mkStruct()}}
		x = &zzV{t: TList, kt: TSet, kids: []*zzV{inner}}
	}
	y := zzClone(x, 1)
	want := zzEq(x, y)
	xy := ValuesAreEqual(x.wire(), y.wire())
	yx := ValuesAreEqual(y.wire(), x.wire())
	verifAssert(xy == yx, "symmetric")
	verifAssert(uint64(verifB2I(xy)) == want, "matches-structural-oracle")
	verifAssert(ValuesAreEqual(x.wire(), x.wire()), "reflexive")
	verifReached("end")
}

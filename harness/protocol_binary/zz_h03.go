//go:build verif

package binary

import (
	"bytes"
	"io"

	"go.uber.org/thriftrw/wire"
)

func init() {
	verifHarnesses["h03a"] = h03a
	verifHarnesses["h03a_witness"] = h03a_witness
}

// zzOneShot is a non-seekable reader that hands out everything it has.
type zzOneShot struct {
	b   []byte
	off int
}

func (r *zzOneShot) Read(p []byte) (int, error) {
	if r.off >= len(r.b) {
		return 0, io.EOF
	}
	n := copy(p, r.b[r.off:])
	r.off += n
	return n, nil
}

// h03a: family A of C03 — arbitrary bytes, arbitrary requested type.
func h03a() {
	n := verifParam("n")
	b := verifBytes(n)
	t := wire.Type(verifByte())

	rd := NewReader(bytes.NewReader(b))
	v, off, err := rd.ReadValue(t, 0)
	var everr error
	if err == nil {
		everr = wire.EvaluateValue(v)
	}
	ok := err == nil && everr == nil
	verifObserveBool("ok", ok)

	// Skip over a seekable reader and over a non-seekable one.
	br := bytes.NewReader(b)
	sr := NewStreamReader(br)
	serr := sr.Skip(t)
	seekPos := int64(n) - int64(br.Len())
	sr.Close()

	os := &zzOneShot{b: b}
	sr2 := NewStreamReader(os)
	serr2 := sr2.Skip(t)
	sr2.Close()

	if ok {
		verifObserveInt("off", off)
		verifAssert(off >= 0 && off <= int64(n), "offset-in-range")
		v2, off2, err2 := rd.ReadValue(t, 0)
		verifAssert(err2 == nil && off2 == off, "decode-deterministic")
		var buf bytes.Buffer
		eerr := Default.Encode(v2, &buf)
		verifAssert(eerr == nil, "reencode-ok")
		out := buf.Bytes()
		verifObserveBytes("reenc", out)
		verifAssert(len(out) == int(off), "reencode-len")
		var diff byte
		for i := range out {
			diff |= out[i] ^ b[i]
		}
		verifAssert(diff == 0, "reencode-bytes")
		verifAssert(serr == nil, "skip-seek-ok")
		verifAssert(seekPos == off, "skip-seek-len")
		verifAssert(serr2 == nil, "skip-stream-ok")
		verifAssert(int64(os.off) == off, "skip-stream-len")
	}
	verifReached("end")
}

func h03a_witness() {
	h03a()
	verifAssert(false, "reachable")
}

//go:build verif

package binary

import (
	"bytes"

	"go.uber.org/thriftrw/wire"
)

func init() {
	verifHarnesses["h03a"] = h03a
	verifHarnesses["h03a_witness"] = h03a_witness
	verifHarnesses["h03b"] = h03b
	verifHarnesses["h03c"] = h03c
	verifHarnesses["h03d"] = h03d
}

// zzCheckDecode is the body of C03 for one input b and requested type t:
// decode + force, re-encode == consumed prefix, Skip (seekable and not)
// consumes the same bytes, streaming decode agrees.
func zzCheckDecode(b []byte, t wire.Type) {
	n := len(b)
	rd := NewReader(bytes.NewReader(b))
	v, off, err := rd.ReadValue(t, 0)
	var everr error
	if err == nil {
		everr = wire.EvaluateValue(v)
	}
	ok := err == nil && everr == nil
	verifObserveBool("ok", ok)

	// Skip over a seekable reader and over a non-seekable one. The pooled
	// StreamReader used above is reused here (dirty-pool hygiene).
	br := bytes.NewReader(b)
	sr := NewStreamReader(br)
	serr := sr.Skip(t)
	seekPos := int64(n) - int64(br.Len())
	sr.Close()

	os := &zzOneShot{b: b}
	sr2 := NewStreamReader(os)
	serr2 := sr2.Skip(t)
	sr2.Close()

	// pure streaming decode over the non-seekable reader (which, by choice,
	// returns io.EOF together with the last bytes)
	os3 := &zzOneShot{b: b, eofWithData: verifParam("eofdata") == 1}
	sr3 := NewStreamReader(os3)
	sn, sterr := zzStreamRead(sr3, t)
	sr3.Close()

	if !ok {
		return
	}
	verifObserveInt("off", off)
	verifAssert(off >= 0 && off <= int64(n), "offset-in-range")
	v2, off2, err2 := rd.ReadValue(t, 0)
	verifAssert(err2 == nil && off2 == off, "decode-deterministic")
	var buf bytes.Buffer
	eerr := Default.Encode(v2, &buf)
	verifAssert(eerr == nil, "reencode-ok")
	out := buf.Bytes()
	verifObserveBytes("reenc", out)
	verifAssert(len(out) == int(off), "reencode-len")
	verifAssert(zzBytesDiff(out, b) == 0, "reencode-bytes")
	verifAssert(serr == nil, "skip-seek-ok")
	verifAssert(seekPos == off, "skip-seek-len")
	verifAssert(serr2 == nil, "skip-stream-ok")
	verifAssert(int64(os.off) == off, "skip-stream-len")
	verifAssert(sterr == nil, "stream-decode-ok")
	verifAssert(int64(os3.off) == off, "stream-decode-len")
	senc := zzSpecEncode(sn, nil)
	verifAssert(len(senc) == int(off), "stream-decode-reencode-len")
	verifAssert(zzBytesDiff(senc, b) == 0, "stream-decode-value")
}

// h03a: family A — arbitrary bytes, arbitrary requested type.
func h03a() {
	n := verifParam("n")
	b := verifBytes(n)
	t := wire.Type(verifByte())
	zzCheckDecode(b, t)
	verifReached("end")
}

func h03a_witness() {
	h03a()
	verifAssert(false, "reachable")
}

// h03b: family B — a valid encoding of a bounded-shape value, truncated at
// an arbitrary offset or with one (two) arbitrary byte substitutions.
func h03b() {
	depth := verifParam("depth")
	budget := verifParam("budget")
	k := verifParam("k")
	maxBin := verifParam("bin")
	muts := verifParam("muts")
	t := zzChooseType(depth)
	v := zzBuild(t, depth, &budget, k, maxBin)
	enc := zzSpecEncode(v, nil)
	b := append([]byte(nil), enc...)
	if verifChoice(2) == 0 {
		cut := verifChoice(len(b) + 1)
		b = b[:cut]
	} else {
		for m := 0; m < muts; m++ {
			pos := verifChoice(len(b))
			b[pos] = verifByte()
		}
	}
	zzCheckDecode(b, t)
	verifReached("end")
}

// h03c: segmentation independence — every decoder and Skip give the same
// result over an arbitrarily chunking non-seekable reader (including one
// zero-length read) as over a one-shot reader.
func h03c() {
	n := verifParam("n")
	b := verifBytes(n)
	t := wire.Type(verifByte())

	o1 := &zzOneShot{b: b}
	s1 := NewStreamReader(o1)
	n1, e1 := zzStreamRead(s1, t)
	s1.Close()

	c1 := &zzChunky{b: b, zeros: 1, free: -1}
	s2 := NewStreamReader(c1)
	n2, e2 := zzStreamRead(s2, t)
	s2.Close()

	verifAssert((e1 == nil) == (e2 == nil), "chunk-decode-errorness")
	if e1 == nil && e2 == nil {
		verifAssert(o1.off == c1.off, "chunk-decode-consumed")
		same, diff := zzDiff(n1, n2)
		verifAssert(same, "chunk-decode-shape")
		verifAssert(diff == 0, "chunk-decode-leaves")
	}

	o2 := &zzOneShot{b: b}
	s3 := NewStreamReader(o2)
	e3 := s3.Skip(t)
	s3.Close()
	c2 := &zzChunky{b: b, zeros: 1, free: -1}
	s4 := NewStreamReader(c2)
	e4 := s4.Skip(t)
	s4.Close()
	verifAssert((e3 == nil) == (e4 == nil), "chunk-skip-errorness")
	if e3 == nil && e4 == nil {
		verifAssert(o2.off == c2.off, "chunk-skip-consumed")
	}
	verifReached("end")
}

// h03d: deeply nested values (chains of structs, of lists, and alternating)
// of 63..130 levels with a symbolic leaf: decode, force, re-encode, skip and
// stream-decode agree exactly as for shallow values.
func h03d() {
	depth := []int{63, 64, 65, 66, 130}[verifChoice(5)]
	kind := verifChoice(3)
	leaf := &zzNode{t: wire.TI32, num: uint64(uint32(verifI32()))}
	n := leaf
	for d := 0; d < depth; d++ {
		useList := kind == 1 || (kind == 2 && d%2 == 1)
		if useList {
			n = &zzNode{t: wire.TList, kt: n.t, kids: []*zzNode{n}}
		} else {
			n = &zzNode{t: wire.TStruct, ids: []int16{1}, kids: []*zzNode{n}}
		}
	}
	b := zzSpecEncode(n, nil)
	rd := NewReader(bytes.NewReader(b))
	v, off, err := rd.ReadValue(n.t, 0)
	verifAssert(err == nil, "deep-decode-ok")
	verifAssert(off == int64(len(b)), "deep-decode-consumed")
	var buf bytes.Buffer
	verifAssert(Default.Encode(v, &buf) == nil, "deep-reencode-ok")
	verifAssert(buf.Len() == len(b), "deep-reencode-len")
	verifAssert(zzBytesDiff(buf.Bytes(), b) == 0, "deep-reencode-bytes")
	br := bytes.NewReader(b)
	sr := NewStreamReader(br)
	verifAssert(sr.Skip(n.t) == nil, "deep-skip-seek-ok")
	verifAssert(br.Len() == 0, "deep-skip-seek-len")
	sr.Close()
	os := &zzOneShot{b: b}
	sr2 := NewStreamReader(os)
	verifAssert(sr2.Skip(n.t) == nil, "deep-skip-stream-ok")
	verifAssert(os.off == len(b), "deep-skip-stream-len")
	sr2.Close()
	os3 := &zzOneShot{b: b}
	sr3 := NewStreamReader(os3)
	sn, err := zzStreamRead(sr3, n.t)
	sr3.Close()
	verifAssert(err == nil, "deep-stream-decode-ok")
	same, diff := zzDiff(sn, n)
	verifAssert(same && diff == 0, "deep-stream-decode-value")
	verifReached("end")
}

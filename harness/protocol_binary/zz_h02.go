//go:build verif

package binary

import (
	"bytes"
	"errors"

	"go.uber.org/thriftrw/wire"
)

func init() {
	verifHarnesses["h02"] = h02
	verifHarnesses["h02_witness"] = h02_witness
	verifHarnesses["h02c"] = h02c
	verifHarnesses["h02big"] = h02big
	verifHarnesses["h02len"] = h02len
}

// h02: C02 — encode == spec bytes (value-based and streaming writer), decode
// (random access and streaming reader) == original value.
func h02() {
	depth := verifParam("depth")
	budget := verifParam("budget")
	k := verifParam("k")
	maxBin := verifParam("bin")
	t := zzChooseType(depth)
	v := zzBuild(t, depth, &budget, k, maxBin)
	spec := zzSpecEncode(v, nil)
	verifObserveBytes("spec", spec)

	// 1. value-based encoder
	var buf bytes.Buffer
	err := Default.Encode(zzToWire(v), &buf)
	verifAssert(err == nil, "encode-ok")
	out := buf.Bytes()
	verifAssert(len(out) == len(spec), "encode-len")
	verifAssert(zzBytesDiff(out, spec) == 0, "encode-bytes")

	// 2. streaming writer
	var buf2 bytes.Buffer
	sw := NewStreamWriter(&buf2)
	err = zzStreamWrite(sw, v)
	sw.Close()
	verifAssert(err == nil, "stream-write-ok")
	out2 := buf2.Bytes()
	verifAssert(len(out2) == len(spec), "stream-write-len")
	verifAssert(zzBytesDiff(out2, spec) == 0, "stream-write-bytes")

	// (the pooled readers have seen failures before: see zzWarmFail)
	zzWarmFail(verifParam("warm"))

	// 3. random-access decoder
	dv, err := Default.Decode(bytes.NewReader(spec), t)
	verifAssert(err == nil, "decode-ok")
	dn, err := zzFromWire(dv)
	verifAssert(err == nil, "decode-force-ok")
	same, diff := zzDiff(dn, v)
	verifAssert(same, "decode-shape")
	verifAssert(diff == 0, "decode-leaves")

	// 3b. the decoded value does not depend on how it was iterated before:
	// an iteration abandoned after the first element, and a re-entrant one
	// (on a fresh decode, so that the abandoned iteration is the first one,
	// and once more on the value that has already been iterated in full)
	dv3, err := Default.Decode(bytes.NewReader(spec), t)
	verifAssert(err == nil, "decode-ok")
	zzPartial(dv3)
	zzPartial(dv)
	dn3, err := zzFromWire(dv3)
	verifAssert(err == nil, "decode-again-after-partial-iteration-ok")
	same, diff = zzDiff(dn3, v)
	verifAssert(same && diff == 0, "decode-value-stable-under-partial-iteration")
	dn4, err := zzFromWire(dv)
	verifAssert(err == nil, "decode-again-ok")
	same, diff = zzDiff(dn4, v)
	verifAssert(same && diff == 0, "decode-value-stable-under-repeated-iteration")

	// 4. streaming reader (non-seekable source)
	os := &zzOneShot{b: spec}
	sr := NewStreamReader(os)
	sn, err := zzStreamRead(sr, t)
	sr.Close()
	verifAssert(err == nil, "stream-read-ok")
	verifAssert(os.off == len(spec), "stream-read-consumed")
	same, diff = zzDiff(sn, v)
	verifAssert(same, "stream-read-shape")
	verifAssert(diff == 0, "stream-read-leaves")

	// 5. sources that return io.EOF together with the last bytes
	os2 := &zzOneShot{b: spec, eofWithData: true}
	sr2 := NewStreamReader(os2)
	sn2, err := zzStreamRead(sr2, t)
	sr2.Close()
	verifAssert(err == nil, "stream-read-eof-with-data-ok")
	same, diff = zzDiff(sn2, v)
	verifAssert(same && diff == 0, "stream-read-eof-with-data-value")
	dv2, err := Default.Decode(&zzEOFReaderAt{b: spec}, t)
	verifAssert(err == nil, "decode-eof-with-data-ok")
	dn2, err := zzFromWire(dv2)
	verifAssert(err == nil, "decode-eof-with-data-force-ok")
	same, diff = zzDiff(dn2, v)
	verifAssert(same && diff == 0, "decode-eof-with-data-value")
	verifReached("end")
}

// h02len: binaries whose length is around a power-of-two boundary
// (250..260 bytes) round-trip through both writers and both readers.
func h02len() {
	l := 250 + verifChoice(11)
	bin := make([]byte, l)
	for i := range bin {
		bin[i] = byte(i*5 + 1)
	}
	bin[0], bin[l-5], bin[l-1] = verifByte(), verifByte(), verifByte()
	v := &zzNode{t: wire.TStruct, ids: []int16{1, 2}, kids: []*zzNode{{t: wire.TBinary, bin: bin}, {t: wire.TI8, num: uint64(verifByte())}}}
	spec := zzSpecEncode(v, nil)
	var buf bytes.Buffer
	verifAssert(Default.Encode(zzToWire(v), &buf) == nil, "encode-ok")
	verifAssert(buf.Len() == len(spec), "encode-len")
	verifAssert(zzBytesDiff(buf.Bytes(), spec) == 0, "encode-bytes")
	var buf2 bytes.Buffer
	sw := NewStreamWriter(&buf2)
	verifAssert(zzStreamWrite(sw, v) == nil, "stream-write-ok")
	sw.Close()
	verifAssert(buf2.Len() == len(spec), "stream-write-len")
	verifAssert(zzBytesDiff(buf2.Bytes(), spec) == 0, "stream-write-bytes")
	// strings take a different writer method
	var buf3 bytes.Buffer
	sw3 := NewStreamWriter(&buf3)
	verifAssert(sw3.WriteString(string(bin)) == nil, "write-string-ok")
	sw3.Close()
	verifAssert(buf3.Len() == 4+l, "write-string-len")
	verifAssert(zzBytesDiff(buf3.Bytes()[4:], bin) == 0 && int(buf3.Bytes()[3]) == l&255, "write-string-bytes")
	dv, err := Default.Decode(bytes.NewReader(spec), wire.TStruct)
	verifAssert(err == nil, "decode-ok")
	dn, err := zzFromWire(dv)
	verifAssert(err == nil, "decode-force-ok")
	same, diff := zzDiff(dn, v)
	verifAssert(same && diff == 0, "decode-value")
	verifReached("end")
}

func h02_witness() {
	h02()
	verifAssert(false, "reachable")
}

// h02c: the streaming reader returns the original value under every
// segmentation of the byte stream into reads (each Read returns an arbitrary
// count >= 1, plus one zero-length read).
func h02c() {
	depth := verifParam("depth")
	budget := verifParam("budget")
	k := verifParam("k")
	maxBin := verifParam("bin")
	t := zzChooseType(depth)
	v := zzBuild(t, depth, &budget, k, maxBin)
	spec := zzSpecEncode(v, nil)
	ch := &zzChunky{b: spec, zeros: 1, free: -1}
	sr := NewStreamReader(ch)
	sn, err := zzStreamRead(sr, t)
	sr.Close()
	verifAssert(err == nil, "chunked-stream-read-ok")
	verifAssert(ch.off == len(spec), "chunked-stream-read-consumed")
	same, diff := zzDiff(sn, v)
	verifAssert(same, "chunked-stream-read-shape")
	verifAssert(diff == 0, "chunked-stream-read-leaves")
	verifReached("end")
}

// h02big: binaries just above the 1 MiB threshold (a different code path in
// ReadBinary) round-trip byte for byte through both decoders. The content is
// a fixed pattern except for a few symbolic bytes (first, middle, last).
func h02big() {
	const mib = 1 << 20
	l := mib + 1 + verifChoice(2)*(mib/2) // 1 MiB + 1, or 1.5 MiB + 1
	bin := make([]byte, l)
	for i := range bin {
		bin[i] = byte(i*7 + 3)
	}
	bin[0], bin[l/2], bin[l-1] = verifByte(), verifByte(), verifByte()
	v := &zzNode{t: wire.TStruct, ids: []int16{1, 2}, kids: []*zzNode{{t: wire.TBinary, bin: bin}, {t: wire.TI8, num: uint64(verifByte())}}}
	spec := zzSpecEncode(v, nil)

	var buf bytes.Buffer
	verifAssert(Default.Encode(zzToWire(v), &buf) == nil, "encode-ok")
	verifAssert(buf.Len() == len(spec), "encode-len")

	dv, err := Default.Decode(bytes.NewReader(spec), wire.TStruct)
	verifAssert(err == nil, "decode-ok")
	dn, err := zzFromWire(dv)
	verifAssert(err == nil, "decode-force-ok")
	verifAssert(len(dn.kids) == 2 && len(dn.kids[0].bin) == l, "decode-binary-len")
	got := dn.kids[0].bin
	verifAssert(got[0] == bin[0] && got[l/2] == bin[l/2] && got[l-1] == bin[l-1] && got[1] == bin[1] && got[l-2] == bin[l-2], "decode-binary-bytes")
	verifAssert(dn.kids[1].num == v.kids[1].num, "decode-field-after-binary")

	os := &zzOneShot{b: spec}
	sr := NewStreamReader(os)
	sn, err := zzStreamRead(sr, wire.TStruct)
	sr.Close()
	verifAssert(err == nil, "stream-read-ok")
	verifAssert(len(sn.kids) == 2 && len(sn.kids[0].bin) == l, "stream-read-binary-len")
	g2 := sn.kids[0].bin
	verifAssert(g2[0] == bin[0] && g2[l/2] == bin[l/2] && g2[l-1] == bin[l-1], "stream-read-binary-bytes")
	verifAssert(sn.kids[1].num == v.kids[1].num, "stream-read-field-after-binary")
	verifReached("end")
}

var zzStop = errors.New("stop")

// zzPartial abandons an iteration over every container of v after its first
// element, having started a second iteration from inside the first.
func zzPartial(v wire.Value) {
	switch v.Type() {
	case wire.TStruct:
		for _, f := range v.GetStruct().Fields {
			zzPartial(f.Value)
		}
	case wire.TList, wire.TSet:
		l := v.GetList()
		if v.Type() == wire.TSet {
			l = v.GetSet()
		}
		l.ForEach(func(e wire.Value) error {
			zzPartial(e)
			l.ForEach(func(wire.Value) error { return zzStop })
			return zzStop
		})
	case wire.TMap:
		m := v.GetMap()
		m.ForEach(func(it wire.MapItem) error {
			zzPartial(it.Key)
			zzPartial(it.Value)
			m.ForEach(func(wire.MapItem) error { return zzStop })
			return zzStop
		})
	}
}

//go:build verif

package binary

import (
	"bytes"
)

func init() {
	verifHarnesses["h02"] = h02
	verifHarnesses["h02_witness"] = h02_witness
}

// h02: C02 — encode == spec bytes (value-based and streaming writer), decode
// (random access and streaming reader) == original value.
func h02() {
	depth := verifParam("depth")
	budget := verifParam("budget")
	k := verifParam("k")
	maxBin := verifParam("bin")
	t := zzChooseType(depth)
	v := zzBuild(t, depth, &budget, k, maxBin)
	spec := zzSpecEncode(v, nil)
	verifObserveBytes("spec", spec)

	// 1. value-based encoder
	var buf bytes.Buffer
	err := Default.Encode(zzToWire(v), &buf)
	verifAssert(err == nil, "encode-ok")
	out := buf.Bytes()
	verifAssert(len(out) == len(spec), "encode-len")
	verifAssert(zzBytesDiff(out, spec) == 0, "encode-bytes")

	// 2. streaming writer
	var buf2 bytes.Buffer
	sw := NewStreamWriter(&buf2)
	err = zzStreamWrite(sw, v)
	sw.Close()
	verifAssert(err == nil, "stream-write-ok")
	out2 := buf2.Bytes()
	verifAssert(len(out2) == len(spec), "stream-write-len")
	verifAssert(zzBytesDiff(out2, spec) == 0, "stream-write-bytes")

	// 3. random-access decoder
	dv, err := Default.Decode(bytes.NewReader(spec), t)
	verifAssert(err == nil, "decode-ok")
	dn, err := zzFromWire(dv)
	verifAssert(err == nil, "decode-force-ok")
	same, diff := zzDiff(dn, v)
	verifAssert(same, "decode-shape")
	verifAssert(diff == 0, "decode-leaves")

	// 4. streaming reader (non-seekable source)
	os := &zzOneShot{b: spec}
	sr := NewStreamReader(os)
	sn, err := zzStreamRead(sr, t)
	sr.Close()
	verifAssert(err == nil, "stream-read-ok")
	verifAssert(os.off == len(spec), "stream-read-consumed")
	same, diff = zzDiff(sn, v)
	verifAssert(same, "stream-read-shape")
	verifAssert(diff == 0, "stream-read-leaves")
	verifReached("end")
}

func h02_witness() {
	h02()
	verifAssert(false, "reachable")
}

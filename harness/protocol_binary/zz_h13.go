//go:build verif

package binary

import (
	"bytes"
	"io"

	"go.uber.org/thriftrw/wire"
)

func init() {
	verifHarnesses["h13a"] = h13a
	verifHarnesses["h13b"] = h13b
	verifHarnesses["h13_witness"] = h13_witness
	verifHarnesses["h13c"] = h13c
}

// Counting readers: every call into the underlying source is counted and the
// run is stopped (assertion "work-linear") once the count exceeds a bound
// linear in the input size. This makes "work linear in N" a plain assertion
// that fails the same way symbolically and natively, instead of a hang.
type zzCounter struct {
	calls, limit int
}

func (c *zzCounter) tick() {
	c.calls++
	if c.calls > c.limit {
		verifAssert(false, "work-linear")
	}
}

type zzCReaderAt struct {
	zzCounter
	r *bytes.Reader
}

func (c *zzCReaderAt) ReadAt(p []byte, off int64) (int, error) {
	c.tick()
	return c.r.ReadAt(p, off)
}

type zzCSeeker struct {
	zzCounter
	r *bytes.Reader
}

func (c *zzCSeeker) Read(p []byte) (int, error) {
	c.tick()
	return c.r.Read(p)
}

func (c *zzCSeeker) Seek(off int64, whence int) (int64, error) {
	c.tick()
	return c.r.Seek(off, whence)
}

type zzCReader struct {
	zzCounter
	r *zzOneShot
}

func (c *zzCReader) Read(p []byte) (int, error) {
	c.tick()
	return c.r.Read(p)
}

func zzWorkLimit(n int) int { return 64 + 32*n }

// zzCostAPI runs one decoding API over b. Allocation is watched by the
// engine's allocation monitor (natively by verifAllocBegin/End).
func zzCostAPI(api int, b []byte, t wire.Type, et wire.EnvelopeType) {
	n := len(b)
	lim := zzWorkLimit(n)
	verifAllocBegin()
	switch api {
	case 0: // random-access decode + force
		ra := &zzCReaderAt{r: bytes.NewReader(b)}
		ra.limit = lim
		v, err := Default.Decode(ra, t)
		if err == nil {
			zzFromWire(v)
		}
	case 1: // streaming decode, seekable source
		s := &zzCSeeker{r: bytes.NewReader(b)}
		s.limit = lim
		sr := NewStreamReader(s)
		zzStreamRead(sr, t)
		sr.Close()
	case 2: // streaming decode, non-seekable source
		s := &zzCReader{r: &zzOneShot{b: b}}
		s.limit = lim
		sr := NewStreamReader(s)
		zzStreamRead(sr, t)
		sr.Close()
	case 3: // skip, seekable
		s := &zzCSeeker{r: bytes.NewReader(b)}
		s.limit = lim
		sr := NewStreamReader(s)
		sr.Skip(t)
		sr.Close()
	case 4: // skip, non-seekable
		s := &zzCReader{r: &zzOneShot{b: b}}
		s.limit = lim
		sr := NewStreamReader(s)
		sr.Skip(t)
		sr.Close()
	case 5: // enveloped, random access
		ra := &zzCReaderAt{r: bytes.NewReader(b)}
		ra.limit = lim
		e, err := Default.DecodeEnveloped(ra)
		if err == nil {
			zzFromWire(e.Value)
		}
	case 6: // envelope header, streaming, non-seekable
		s := &zzCReader{r: &zzOneShot{b: b}}
		s.limit = lim
		sr := NewStreamReader(s)
		if _, err := sr.ReadEnvelopeBegin(); err == nil {
			zzStreamRead(sr, wire.TStruct)
		}
		sr.Close()
	case 7: // request, random access
		ra := &zzCReaderAt{r: bytes.NewReader(b)}
		ra.limit = lim
		v, _, err := Default.DecodeRequest(et, ra)
		if err == nil {
			zzFromWire(v)
		}
	case 8: // request, streaming, seekable
		s := &zzCSeeker{r: bytes.NewReader(b)}
		s.limit = lim
		Default.ReadRequest(nil, et, s, &zzBody{})
	case 9: // request, streaming, non-seekable
		s := &zzCReader{r: &zzOneShot{b: b}}
		s.limit = lim
		Default.ReadRequest(nil, et, io.Reader(s), &zzBody{})
	}
	verifAllocEnd(n)
}

// h13a: arbitrary short messages through every decoding API.
func h13a() {
	n := verifParam("n")
	api := verifParam("api")
	b := verifBytes(n)
	t := wire.Type(verifByte())
	et := wire.EnvelopeType(verifI8())
	zzCostAPI(api, b, t, et)
	verifAssert(true, "cost-bounded")
	verifReached("end")
}

// h13b: a valid encoding of a bounded-shape value in which four consecutive
// bytes at any position are replaced by an arbitrary int32 (this reaches every
// length/count field of the shape with every value).
func h13b() {
	api := verifParam("api")
	depth := verifParam("depth")
	budget := verifParam("budget")
	k := verifParam("k")
	maxBin := verifParam("bin")
	t := zzChooseType(depth)
	v := zzBuild(t, depth, &budget, k, maxBin)
	enc := zzSpecEncode(v, nil)
	b := append([]byte(nil), enc...)
	if len(b) >= 4 {
		pos := verifChoice(len(b) - 3)
		x := uint32(verifI32())
		b[pos], b[pos+1], b[pos+2], b[pos+3] = byte(x>>24), byte(x>>16), byte(x>>8), byte(x)
	}
	zzCostAPI(api, b, t, wire.Call)
	verifAssert(true, "cost-bounded")
	verifReached("end")
}

func h13_witness() {
	h13a()
	verifAssert(false, "reachable")
}

// zzOneByte delivers one byte per Read (counted).
type zzOneByte struct {
	zzCounter
	b   []byte
	off int
}

func (r *zzOneByte) Read(p []byte) (int, error) {
	r.tick()
	if r.off >= len(r.b) || len(p) == 0 {
		if len(p) == 0 {
			return 0, nil
		}
		return 0, io.EOF
	}
	p[0] = r.b[r.off]
	r.off++
	return 1, nil
}

// h13c: a declared binary / string / envelope-name length (arbitrary int32)
// followed by 40 bytes that arrive one byte per Read: allocation must not
// grow with the number of reads or the declared length.
func h13c() {
	api := verifParam("api")
	x := uint32(verifI32())
	msg := []byte{byte(x >> 24), byte(x >> 16), byte(x >> 8), byte(x)}
	if api == 2 {
		msg = append([]byte{0x80, 0x01, 0x00, 0x01}, msg...) // strict envelope, then the name length
	}
	for i := 0; i < 40; i++ {
		msg = append(msg, byte('a'+i%7))
	}
	src := &zzOneByte{b: msg}
	src.limit = 64 + 32*len(msg)
	sr := NewStreamReader(src)
	verifAllocBegin()
	switch api {
	case 0:
		sr.ReadBinary()
	case 1:
		sr.ReadString()
	case 2:
		sr.ReadEnvelopeBegin()
	}
	verifAllocEnd(len(msg))
	sr.Close()
	verifAssert(true, "cost-bounded")
	verifReached("end")
}

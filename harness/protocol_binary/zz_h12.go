//go:build verif

package binary

import (
	"bytes"
	"io"

	"go.uber.org/thriftrw/protocol/stream"
	"go.uber.org/thriftrw/wire"
)

func init() {
	verifHarnesses["h12a"] = h12a
	verifHarnesses["h12b"] = h12b
	verifHarnesses["h12c"] = h12c
	verifHarnesses["h12_witness"] = h12_witness
}

// zzSpecEnvelope is the oracle for the three framings (0 = bare struct,
// 1 = legacy/non-strict, 2 = versioned/strict), written from the Thrift spec.
func zzSpecEnvelope(framing int, name string, typ wire.EnvelopeType, seq int32, body []byte) []byte {
	var out []byte
	switch framing {
	case 1:
		out = zzPut32(out, uint32(len(name)))
		out = append(out, name...)
		out = append(out, byte(typ))
		out = zzPut32(out, uint32(seq))
	case 2:
		out = zzPut32(out, 0x80010000|uint32(uint8(typ)))
		out = zzPut32(out, uint32(len(name)))
		out = append(out, name...)
		out = zzPut32(out, uint32(seq))
	}
	return append(out, body...)
}

func zzStrDiff(a, b string) byte {
	var d byte
	for i := 0; i < len(a); i++ {
		d |= a[i] ^ b[i]
	}
	return d
}

// zzBody is a stream.BodyReader that decodes a struct generically.
type zzBody struct {
	n   *zzNode
	err error
}

func (b *zzBody) Decode(sr stream.Reader) error {
	b.n, b.err = zzStreamRead(sr, wire.TStruct)
	return b.err
}

// zzEnveloper is a stream.Enveloper writing a fixed tree.
type zzEnveloper struct {
	name string
	typ  wire.EnvelopeType
	n    *zzNode
}

func (e *zzEnveloper) MethodName() string              { return e.name }
func (e *zzEnveloper) EnvelopeType() wire.EnvelopeType { return e.typ }
func (e *zzEnveloper) Encode(sw stream.Writer) error   { return zzStreamWrite(sw, e.n) }

// h12a: envelope round trip against the spec encoder, both framings, both
// writer APIs, both reader APIs.
func h12a() {
	l := verifParam("l")
	name := verifString(l)
	typ := wire.EnvelopeType(verifI8())
	verifAssume(typ >= 0)
	seq := verifI32()
	budget := 2
	body := zzBuild(wire.TStruct, 1, &budget, 1, 1)
	bspec := zzSpecEncode(body, nil)
	env := wire.Envelope{Name: name, Type: typ, SeqID: seq, Value: zzToWire(body)}

	for framing := 1; framing <= 2; framing++ {
		spec := zzSpecEnvelope(framing, name, typ, seq, bspec)

		// value-based writer
		var buf bytes.Buffer
		w := BorrowWriter(&buf)
		var err error
		if framing == 2 {
			err = w.WriteEnveloped(env)
		} else {
			err = w.WriteLegacyEnveloped(env)
		}
		ReturnWriter(w)
		verifAssert(err == nil, "write-enveloped-ok")
		verifAssert(buf.Len() == len(spec), "write-enveloped-len")
		verifAssert(zzBytesDiff(buf.Bytes(), spec) == 0, "write-enveloped-bytes")

		// streaming writer
		var buf2 bytes.Buffer
		sw := NewStreamWriter(&buf2)
		eh := stream.EnvelopeHeader{Name: name, Type: typ, SeqID: seq}
		if framing == 2 {
			err = sw.WriteEnvelopeBegin(eh)
		} else {
			err = sw.WriteLegacyEnvelopeBegin(eh)
		}
		verifAssert(err == nil, "stream-envelope-begin-ok")
		verifAssert(zzStreamWrite(sw, body) == nil, "stream-envelope-body-ok")
		if framing == 2 {
			err = sw.WriteEnvelopeEnd()
		} else {
			err = sw.WriteLegacyEnvelopeEnd()
		}
		sw.Close()
		verifAssert(err == nil, "stream-envelope-end-ok")
		verifAssert(buf2.Len() == len(spec), "stream-envelope-len")
		verifAssert(zzBytesDiff(buf2.Bytes(), spec) == 0, "stream-envelope-bytes")

		// random-access reader
		e, err := Default.DecodeEnveloped(bytes.NewReader(spec))
		verifAssert(err == nil, "decode-enveloped-ok")
		verifAssert(len(e.Name) == len(name), "decode-enveloped-name-len")
		verifAssert(zzStrDiff(e.Name, name) == 0, "decode-enveloped-name")
		verifAssert(e.Type == typ, "decode-enveloped-type")
		verifAssert(e.SeqID == seq, "decode-enveloped-seqid")
		dn, err := zzFromWire(e.Value)
		verifAssert(err == nil, "decode-enveloped-body-ok")
		same, diff := zzDiff(dn, body)
		verifAssert(same, "decode-enveloped-body-shape")
		verifAssert(diff == 0, "decode-enveloped-body")

		// streaming reader over a non-seekable source
		os := &zzOneShot{b: spec}
		sr := NewStreamReader(os)
		h, err := sr.ReadEnvelopeBegin()
		verifAssert(err == nil, "stream-read-envelope-ok")
		verifAssert(len(h.Name) == len(name), "stream-read-envelope-name-len")
		verifAssert(zzStrDiff(h.Name, name) == 0, "stream-read-envelope-name")
		verifAssert(h.Type == typ, "stream-read-envelope-type")
		verifAssert(h.SeqID == seq, "stream-read-envelope-seqid")
		sn, err := zzStreamRead(sr, wire.TStruct)
		verifAssert(err == nil, "stream-read-envelope-body-ok")
		verifAssert(sr.ReadEnvelopeEnd() == nil, "stream-read-envelope-end-ok")
		sr.Close()
		verifAssert(os.off == len(spec), "stream-read-envelope-consumed")
		same, diff = zzDiff(sn, body)
		verifAssert(same, "stream-read-envelope-body-shape")
		verifAssert(diff == 0, "stream-read-envelope-body")
	}
	verifReached("end")
}

func zzResponderKind(r interface{}) (kind int, name string, seq int32) {
	switch r := r.(type) {
	case *noEnvelopeResponder:
		return 0, "", 0
	case *EnvelopeV0Responder:
		return 1, r.Name, r.SeqID
	case *EnvelopeV1Responder:
		return 2, r.Name, r.SeqID
	}
	return -1, "", 0
}

// zzReqReader builds the request reader for ReadRequest: 0 seekable,
// 1 one-shot non-seekable, 2 arbitrarily chunking non-seekable, 3 one-shot
// returning io.EOF together with the last bytes.
func zzReqReader(kind int, b []byte) io.Reader {
	switch kind {
	case 0:
		return bytes.NewReader(b)
	case 1:
		return &zzOneShot{b: b}
	case 3:
		return &zzOneShot{b: b, eofWithData: true}
	}
	return &zzChunky{b: b, zeros: 1, free: verifParam("free")}
}

// zzAgree checks that the streaming request API accepts what the
// random-access API accepts, with the same framing, name, seqid and body.
func zzAgree(b []byte, et wire.EnvelopeType, readerKind int) (accepted bool, kind int) {
	v, resp, err := Default.DecodeRequest(et, bytes.NewReader(b))
	var tree *zzNode
	if err == nil {
		tree, err = zzFromWire(v)
	}
	ok := err == nil
	verifObserveBool("ra-accepts", ok)

	body := &zzBody{}
	resp2, err2 := Default.ReadRequest(nil, et, zzReqReader(readerKind, b), body)

	if !ok {
		return false, -1
	}
	k1, n1, s1 := zzResponderKind(resp)
	verifObserveInt("framing", int64(k1))
	verifAssert(err2 == nil, "stream-accepts-what-ra-accepts")
	k2, n2, s2 := zzResponderKind(resp2)
	verifAssert(k1 >= 0 && k1 == k2, "same-framing")
	verifAssert(len(n1) == len(n2), "same-name-len")
	verifAssert(zzStrDiff(n1, n2) == 0, "same-name")
	verifAssert(s1 == s2, "same-seqid")
	same, diff := zzDiff(tree, body.n)
	verifAssert(same, "same-body-shape")
	verifAssert(diff == 0, "same-body")
	return true, k1
}

// h12b: arbitrary request bytes; classification and API agreement under
// every segmentation of the request stream.
func h12b() {
	n := verifParam("n")
	rk := verifParam("reader")
	b := verifBytes(n)
	et := wire.EnvelopeType(verifI8())
	ok, kind := zzAgree(b, et, rk)
	if ok && kind == 2 {
		// an accepted versioned envelope carries the expected type
		verifAssert(n >= 4 && int8(b[3]) == int8(et), "accepted-strict-type")
	}
	if ok && kind == 1 {
		ln := int(b[1])<<16 | int(b[2])<<8 | int(b[3])
		lc := verifConcrete(ln)
		verifAssert(n > 4+lc && int8(b[4+lc]) == int8(et), "accepted-legacy-type")
	}
	verifReached("end")
}

// h12c: a spec-encoded request in each framing is classified as that
// framing by both APIs and the reply echoes framing, name and seqid.
func h12c() {
	l := verifParam("l")
	rk := verifParam("reader")
	framing := verifChoice(3)
	name := verifString(l)
	seq := verifI32()
	et := wire.Call
	if verifChoice(2) == 1 {
		et = wire.OneWay
	}
	budget := 2
	body := zzBuild(wire.TStruct, 1, &budget, 1, 1)
	bspec := zzSpecEncode(body, nil)
	if framing == 0 {
		// a bare struct must not look like an envelope: its first byte is a
		// field type (or stop); the classifier's documented precondition.
		verifAssume(len(bspec) < 2 || (bspec[0] != 0 && bspec[0]&0x80 == 0))
	}
	req := zzSpecEnvelope(framing, name, et, seq, bspec)
	ok, kind := zzAgree(req, et, rk)
	verifAssert(ok, "spec-request-accepted")
	verifAssert(kind == framing, "framing-detected")

	// wrong message type is rejected by both APIs
	if framing != 0 {
		other := wire.Reply
		_, _, werr := Default.DecodeRequest(other, bytes.NewReader(req))
		verifAssert(werr != nil, "wrong-type-rejected-ra")
		_, werr2 := Default.ReadRequest(nil, other, zzReqReader(rk&1, req), &zzBody{})
		verifAssert(werr2 != nil, "wrong-type-rejected-stream")
	}

	// replies
	rbudget := 2
	reply := zzBuild(wire.TStruct, 1, &rbudget, 1, 1)
	rspec := zzSpecEncode(reply, nil)
	want := zzSpecEnvelope(framing, name, wire.Reply, seq, rspec)

	_, resp, _ := Default.DecodeRequest(et, bytes.NewReader(req))
	var buf bytes.Buffer
	err := resp.EncodeResponse(zzToWire(reply), wire.Reply, &buf)
	verifAssert(err == nil, "encode-response-ok")
	verifAssert(buf.Len() == len(want), "encode-response-len")
	verifAssert(zzBytesDiff(buf.Bytes(), want) == 0, "encode-response-echo")

	resp2, _ := Default.ReadRequest(nil, et, zzReqReader(rk&1, req), &zzBody{})
	// another request (other name and seqid, same framing) is read before the
	// first one is answered: a responder must keep its own request's identity
	other2 := zzSpecEnvelope(framing, zzOtherName(name), et, ^seq, bspec)
	_, oerr := Default.ReadRequest(nil, et, zzReqReader(rk&1, other2), &zzBody{})
	verifAssert(oerr == nil, "second-request-accepted")
	var buf2 bytes.Buffer
	// the reply body reports its own method name (a generated result names the
	// bare function); the envelope must echo the request's
	err = resp2.WriteResponse(wire.Reply, &buf2, &zzEnveloper{name: "zzreply", typ: wire.Reply, n: reply})
	verifAssert(err == nil, "write-response-ok")
	verifAssert(buf2.Len() == len(want), "write-response-len")
	verifAssert(zzBytesDiff(buf2.Bytes(), want) == 0, "write-response-echo")
	verifReached("end")
}

// zzOtherName is a name of the same length with every byte changed.
func zzOtherName(name string) string {
	b := make([]byte, len(name))
	for i := range b {
		b[i] = name[i] ^ 0x55
	}
	return string(b)
}

func h12_witness() {
	h12a()
	verifAssert(false, "reachable")
}

//go:build verif

package binary

import (
	"bytes"
	"io"
	"math"

	"go.uber.org/thriftrw/protocol/stream"
	"go.uber.org/thriftrw/wire"
)

// ---------------------------------------------------------------------------
// Harness-side value trees, the spec encoder and generic stream drivers.
// Nothing in this file uses thriftrw's encoders/decoders except where a
// function says so (zzToWire/zzFromWire/zzStreamWrite/zzStreamRead drive the
// real API; zzSpecEncode is the independent oracle).
// ---------------------------------------------------------------------------

type zzNode struct {
	t      wire.Type
	num    uint64 // bool (0/1), i8, i16, i32, i64, double bits — low bits
	bin    []byte
	ids    []int16   // struct field ids
	kids   []*zzNode // struct fields / list, set elements / map keys
	vals   []*zzNode // map values
	kt, vt wire.Type // element / key type, value type
}

var zzLeafTypes = [...]wire.Type{wire.TBool, wire.TI8, wire.TDouble, wire.TI16, wire.TI32, wire.TI64, wire.TBinary}
var zzAllTypes = [...]wire.Type{wire.TBool, wire.TI8, wire.TDouble, wire.TI16, wire.TI32, wire.TI64, wire.TBinary,
	wire.TStruct, wire.TMap, wire.TSet, wire.TList}

// zzChooseType picks a wire type; at depth 0 only leaves.
func zzChooseType(depth int) wire.Type {
	if depth <= 0 {
		return zzLeafTypes[verifChoice(len(zzLeafTypes))]
	}
	return zzAllTypes[verifChoice(len(zzAllTypes))]
}

// zzBuild builds a value of type t with symbolic leaves. budget bounds the
// total number of nodes, maxBin the length of binaries, k the container size.
func zzBuild(t wire.Type, depth int, budget *int, k, maxBin int) *zzNode {
	*budget--
	n := &zzNode{t: t}
	switch t {
	case wire.TBool:
		if verifBool() {
			n.num = 1
		}
	case wire.TI8:
		n.num = uint64(uint8(verifI8()))
	case wire.TI16:
		n.num = uint64(uint16(verifI16()))
	case wire.TI32:
		n.num = uint64(uint32(verifI32()))
	case wire.TI64, wire.TDouble:
		n.num = verifU64()
	case wire.TBinary:
		l := verifChoice(maxBin + 1)
		n.bin = verifBytes(l)
	case wire.TStruct:
		cnt := zzCount(budget, k, 1)
		for i := 0; i < cnt; i++ {
			id := verifI16()
			for _, o := range n.ids {
				verifAssume(o != id)
			}
			n.ids = append(n.ids, id)
			n.kids = append(n.kids, zzBuild(zzChooseType(depth-1), depth-1, budget, k, maxBin))
		}
	case wire.TList, wire.TSet:
		n.kt = zzChooseType(depth - 1)
		cnt := zzCount(budget, k, 1)
		for i := 0; i < cnt; i++ {
			n.kids = append(n.kids, zzBuild(n.kt, depth-1, budget, k, maxBin))
		}
	case wire.TMap:
		n.kt = zzChooseType(depth - 1)
		n.vt = zzChooseType(depth - 1)
		cnt := zzCount(budget, k, 2)
		for i := 0; i < cnt; i++ {
			n.kids = append(n.kids, zzBuild(n.kt, depth-1, budget, k, maxBin))
			n.vals = append(n.vals, zzBuild(n.vt, depth-1, budget, k, maxBin))
		}
	}
	return n
}

func zzCount(budget *int, k, per int) int {
	max := *budget / per
	if max > k {
		max = k
	}
	if max < 0 {
		max = 0
	}
	return verifChoice(max + 1)
}

// ---- the oracle: Thrift binary protocol, written from the specification ----

func zzPut16(out []byte, v uint16) []byte { return append(out, byte(v>>8), byte(v)) }
func zzPut32(out []byte, v uint32) []byte {
	return append(out, byte(v>>24), byte(v>>16), byte(v>>8), byte(v))
}
func zzPut64(out []byte, v uint64) []byte {
	return append(out, byte(v>>56), byte(v>>48), byte(v>>40), byte(v>>32), byte(v>>24), byte(v>>16), byte(v>>8), byte(v))
}

func zzSpecEncode(n *zzNode, out []byte) []byte {
	switch n.t {
	case wire.TBool, wire.TI8:
		out = append(out, byte(n.num))
	case wire.TI16:
		out = zzPut16(out, uint16(n.num))
	case wire.TI32:
		out = zzPut32(out, uint32(n.num))
	case wire.TI64, wire.TDouble:
		out = zzPut64(out, n.num)
	case wire.TBinary:
		out = zzPut32(out, uint32(len(n.bin)))
		out = append(out, n.bin...)
	case wire.TStruct:
		for i, f := range n.kids {
			out = append(out, byte(f.t))
			out = zzPut16(out, uint16(n.ids[i]))
			out = zzSpecEncode(f, out)
		}
		out = append(out, 0)
	case wire.TList, wire.TSet:
		out = append(out, byte(n.kt))
		out = zzPut32(out, uint32(len(n.kids)))
		for _, e := range n.kids {
			out = zzSpecEncode(e, out)
		}
	case wire.TMap:
		out = append(out, byte(n.kt), byte(n.vt))
		out = zzPut32(out, uint32(len(n.kids)))
		for i := range n.kids {
			out = zzSpecEncode(n.kids[i], out)
			out = zzSpecEncode(n.vals[i], out)
		}
	}
	return out
}

// ---- conversion to and from the real wire.Value ----

func zzToWire(n *zzNode) wire.Value {
	switch n.t {
	case wire.TBool:
		return wire.NewValueBool(n.num == 1)
	case wire.TI8:
		return wire.NewValueI8(int8(n.num))
	case wire.TI16:
		return wire.NewValueI16(int16(n.num))
	case wire.TI32:
		return wire.NewValueI32(int32(n.num))
	case wire.TI64:
		return wire.NewValueI64(int64(n.num))
	case wire.TDouble:
		return wire.NewValueDouble(math.Float64frombits(n.num))
	case wire.TBinary:
		return wire.NewValueBinary(n.bin)
	case wire.TStruct:
		fs := make([]wire.Field, len(n.kids))
		for i, f := range n.kids {
			fs[i] = wire.Field{ID: n.ids[i], Value: zzToWire(f)}
		}
		return wire.NewValueStruct(wire.Struct{Fields: fs})
	case wire.TList, wire.TSet:
		vs := make([]wire.Value, len(n.kids))
		for i, e := range n.kids {
			vs[i] = zzToWire(e)
		}
		l := wire.ValueListFromSlice(n.kt, vs)
		if n.t == wire.TSet {
			return wire.NewValueSet(l)
		}
		return wire.NewValueList(l)
	case wire.TMap:
		items := make([]wire.MapItem, len(n.kids))
		for i := range n.kids {
			items[i] = wire.MapItem{Key: zzToWire(n.kids[i]), Value: zzToWire(n.vals[i])}
		}
		return wire.NewValueMap(wire.MapItemListFromSlice(n.kt, n.vt, items))
	}
	panic("zzToWire: bad type")
}

// zzFromWire reads a real wire.Value (forcing lazy containers) into a tree.
func zzFromWire(v wire.Value) (*zzNode, error) {
	n := &zzNode{t: v.Type()}
	switch v.Type() {
	case wire.TBool:
		n.num = uint64(verifB2I(v.GetBool()))
	case wire.TI8:
		n.num = uint64(uint8(v.GetI8()))
	case wire.TI16:
		n.num = uint64(uint16(v.GetI16()))
	case wire.TI32:
		n.num = uint64(uint32(v.GetI32()))
	case wire.TI64:
		n.num = uint64(v.GetI64())
	case wire.TDouble:
		n.num = math.Float64bits(v.GetDouble())
	case wire.TBinary:
		n.bin = v.GetBinary()
	case wire.TStruct:
		for _, f := range v.GetStruct().Fields {
			c, err := zzFromWire(f.Value)
			if err != nil {
				return nil, err
			}
			n.ids = append(n.ids, f.ID)
			n.kids = append(n.kids, c)
		}
	case wire.TList, wire.TSet:
		var l wire.ValueList
		if v.Type() == wire.TList {
			l = v.GetList()
		} else {
			l = v.GetSet()
		}
		n.kt = l.ValueType()
		err := l.ForEach(func(e wire.Value) error {
			c, err := zzFromWire(e)
			if err != nil {
				return err
			}
			n.kids = append(n.kids, c)
			return nil
		})
		if err != nil {
			return nil, err
		}
		if l.Size() != len(n.kids) {
			return nil, io.ErrShortBuffer
		}
	case wire.TMap:
		m := v.GetMap()
		n.kt, n.vt = m.KeyType(), m.ValueType()
		err := m.ForEach(func(it wire.MapItem) error {
			k, err := zzFromWire(it.Key)
			if err != nil {
				return err
			}
			w, err := zzFromWire(it.Value)
			if err != nil {
				return err
			}
			n.kids = append(n.kids, k)
			n.vals = append(n.vals, w)
			return nil
		})
		if err != nil {
			return nil, err
		}
		if m.Size() != len(n.kids) {
			return nil, io.ErrShortBuffer
		}
	default:
		return nil, io.ErrNoProgress
	}
	return n, nil
}

// zzDiff compares two trees: same is false on any concrete shape difference;
// diff accumulates XORs of all leaves (0 iff all leaves are identical).
func zzDiff(a, b *zzNode) (same bool, diff uint64) {
	if a.t != b.t || len(a.kids) != len(b.kids) || len(a.vals) != len(b.vals) || len(a.bin) != len(b.bin) || len(a.ids) != len(b.ids) {
		return false, 1
	}
	switch a.t {
	case wire.TBool, wire.TI8, wire.TI16, wire.TI32, wire.TI64, wire.TDouble:
		return true, a.num ^ b.num
	case wire.TBinary:
		for i := range a.bin {
			diff |= uint64(a.bin[i] ^ b.bin[i])
		}
		return true, diff
	case wire.TList, wire.TSet, wire.TMap:
		if a.kt != b.kt || a.vt != b.vt {
			return false, 1
		}
	}
	for i := range a.ids {
		diff |= uint64(uint16(a.ids[i] ^ b.ids[i]))
	}
	for i := range a.kids {
		s, d := zzDiff(a.kids[i], b.kids[i])
		if !s {
			return false, 1
		}
		diff |= d
	}
	for i := range a.vals {
		s, d := zzDiff(a.vals[i], b.vals[i])
		if !s {
			return false, 1
		}
		diff |= d
	}
	return true, diff
}

// ---- generic drivers of the streaming API ----

func zzStreamWrite(sw stream.Writer, n *zzNode) error {
	switch n.t {
	case wire.TBool:
		return sw.WriteBool(n.num == 1)
	case wire.TI8:
		return sw.WriteInt8(int8(n.num))
	case wire.TI16:
		return sw.WriteInt16(int16(n.num))
	case wire.TI32:
		return sw.WriteInt32(int32(n.num))
	case wire.TI64:
		return sw.WriteInt64(int64(n.num))
	case wire.TDouble:
		return sw.WriteDouble(math.Float64frombits(n.num))
	case wire.TBinary:
		return sw.WriteBinary(n.bin)
	case wire.TStruct:
		if err := sw.WriteStructBegin(); err != nil {
			return err
		}
		for i, f := range n.kids {
			if err := sw.WriteFieldBegin(stream.FieldHeader{ID: n.ids[i], Type: f.t}); err != nil {
				return err
			}
			if err := zzStreamWrite(sw, f); err != nil {
				return err
			}
			if err := sw.WriteFieldEnd(); err != nil {
				return err
			}
		}
		return sw.WriteStructEnd()
	case wire.TList:
		if err := sw.WriteListBegin(stream.ListHeader{Type: n.kt, Length: len(n.kids)}); err != nil {
			return err
		}
		for _, e := range n.kids {
			if err := zzStreamWrite(sw, e); err != nil {
				return err
			}
		}
		return sw.WriteListEnd()
	case wire.TSet:
		if err := sw.WriteSetBegin(stream.SetHeader{Type: n.kt, Length: len(n.kids)}); err != nil {
			return err
		}
		for _, e := range n.kids {
			if err := zzStreamWrite(sw, e); err != nil {
				return err
			}
		}
		return sw.WriteSetEnd()
	case wire.TMap:
		if err := sw.WriteMapBegin(stream.MapHeader{KeyType: n.kt, ValueType: n.vt, Length: len(n.kids)}); err != nil {
			return err
		}
		for i := range n.kids {
			if err := zzStreamWrite(sw, n.kids[i]); err != nil {
				return err
			}
			if err := zzStreamWrite(sw, n.vals[i]); err != nil {
				return err
			}
		}
		return sw.WriteMapEnd()
	}
	return io.ErrNoProgress
}

// zzStreamRead decodes a value of type t by driving the streaming reader.
// maxElems guards the harness against huge declared counts (the loops stop
// on the first read error anyway).
func zzStreamRead(sr stream.Reader, t wire.Type) (*zzNode, error) {
	n := &zzNode{t: t}
	switch t {
	case wire.TBool:
		v, err := sr.ReadBool()
		n.num = uint64(verifB2I(v))
		return n, err
	case wire.TI8:
		v, err := sr.ReadInt8()
		n.num = uint64(uint8(v))
		return n, err
	case wire.TI16:
		v, err := sr.ReadInt16()
		n.num = uint64(uint16(v))
		return n, err
	case wire.TI32:
		v, err := sr.ReadInt32()
		n.num = uint64(uint32(v))
		return n, err
	case wire.TI64:
		v, err := sr.ReadInt64()
		n.num = uint64(v)
		return n, err
	case wire.TDouble:
		v, err := sr.ReadDouble()
		n.num = math.Float64bits(v)
		return n, err
	case wire.TBinary:
		v, err := sr.ReadBinary()
		n.bin = v
		return n, err
	case wire.TStruct:
		if err := sr.ReadStructBegin(); err != nil {
			return nil, err
		}
		fh, ok, err := sr.ReadFieldBegin()
		if err != nil {
			return nil, err
		}
		for ok {
			c, err := zzStreamRead(sr, fh.Type)
			if err != nil {
				return nil, err
			}
			n.ids = append(n.ids, fh.ID)
			n.kids = append(n.kids, c)
			if err := sr.ReadFieldEnd(); err != nil {
				return nil, err
			}
			if fh, ok, err = sr.ReadFieldBegin(); err != nil {
				return nil, err
			}
		}
		return n, sr.ReadStructEnd()
	case wire.TList:
		lh, err := sr.ReadListBegin()
		if err != nil {
			return nil, err
		}
		n.kt = lh.Type
		for i := 0; i < lh.Length; i++ {
			c, err := zzStreamRead(sr, lh.Type)
			if err != nil {
				return nil, err
			}
			n.kids = append(n.kids, c)
		}
		return n, sr.ReadListEnd()
	case wire.TSet:
		sh, err := sr.ReadSetBegin()
		if err != nil {
			return nil, err
		}
		n.kt = sh.Type
		for i := 0; i < sh.Length; i++ {
			c, err := zzStreamRead(sr, sh.Type)
			if err != nil {
				return nil, err
			}
			n.kids = append(n.kids, c)
		}
		return n, sr.ReadSetEnd()
	case wire.TMap:
		mh, err := sr.ReadMapBegin()
		if err != nil {
			return nil, err
		}
		n.kt, n.vt = mh.KeyType, mh.ValueType
		for i := 0; i < mh.Length; i++ {
			k, err := zzStreamRead(sr, mh.KeyType)
			if err != nil {
				return nil, err
			}
			v, err := zzStreamRead(sr, mh.ValueType)
			if err != nil {
				return nil, err
			}
			n.kids = append(n.kids, k)
			n.vals = append(n.vals, v)
		}
		return n, sr.ReadMapEnd()
	}
	return nil, io.ErrNoProgress
}

// zzOneShot is a non-seekable reader that hands out everything it has.
type zzOneShot struct {
	b   []byte
	off int
	// eofWithData makes the read that delivers the last byte return io.EOF
	// together with the data, as the io.Reader contract allows.
	eofWithData bool
}

func (r *zzOneShot) Read(p []byte) (int, error) {
	if r.off >= len(r.b) {
		return 0, io.EOF
	}
	n := copy(p, r.b[r.off:])
	r.off += n
	if r.eofWithData && r.off == len(r.b) {
		return n, io.EOF
	}
	return n, nil
}

// zzEOFReaderAt is an io.ReaderAt that returns io.EOF together with a full
// read that ends exactly at the end of the input (allowed by the contract).
type zzEOFReaderAt struct{ b []byte }

func (r *zzEOFReaderAt) ReadAt(p []byte, off int64) (int, error) {
	if off < 0 || off >= int64(len(r.b)) {
		return 0, io.EOF
	}
	n := copy(p, r.b[off:])
	if n < len(p) || int(off)+n == len(r.b) {
		return n, io.EOF
	}
	return n, nil
}

// zzWarmFail leaves the codec's pooled objects in the state a busy process
// would: k failed decodes of a truncated nested container, then one success.
func zzWarmFail(k int) {
	// list<list<list<binary>>> cut inside the innermost length prefix: the
	// failure happens while skipping, three levels deep
	trunc := []byte{0x0f, 0, 0, 0, 1, 0x0f, 0, 0, 0, 1, 0x0b, 0, 0, 0, 1, 0, 0}
	for i := 0; i < k; i++ {
		v, err := Default.Decode(bytes.NewReader(trunc), wire.TList)
		if err == nil {
			wire.EvaluateValue(v)
		}
	}
	Default.Decode(bytes.NewReader([]byte{0}), wire.TStruct)
}

// zzChunky is a non-seekable reader whose first `free` Reads each return an
// arbitrary number of bytes between 1 and what is possible (and, while
// zeros > 0, possibly a zero-length read); later Reads return all they can.
// free < 0 means every Read is arbitrary.
type zzChunky struct {
	b     []byte
	off   int
	zeros int // remaining permitted zero-length reads
	free  int
	reads int
}

func (r *zzChunky) Read(p []byte) (int, error) {
	r.reads++
	if len(p) == 0 {
		return 0, nil
	}
	if r.off >= len(r.b) {
		return 0, io.EOF
	}
	max := len(r.b) - r.off
	if len(p) < max {
		max = len(p)
	}
	k := max
	if r.free != 0 {
		if r.free > 0 {
			r.free--
		}
		lo := 1
		if r.zeros > 0 {
			lo = 0
		}
		k = lo + verifChoice(max-lo+1)
		if k == 0 {
			r.zeros--
			return 0, nil
		}
	}
	copy(p[:k], r.b[r.off:r.off+k])
	r.off += k
	return k, nil
}

func zzBytesDiff(a, b []byte) byte {
	var d byte
	for i := range a {
		d |= a[i] ^ b[i]
	}
	return d
}

//go:build verif

package zzlib

import (
	"time"
	"encoding/json"
	"fmt"
	"os"
	"runtime/debug"
)

type runCase struct {
	Harness string         `json:"harness"`
	Params  map[string]int `json:"params"`
	Draws   []uint64       `json:"draws"`
}

type runResult struct {
	Outcome   string   `json:"outcome"`
	Msg       string   `json:"msg"`
	Obs       []string `json:"obs"`
	Exhausted bool     `json:"exhausted"`
	Unused    int      `json:"unused"`
	ElapsedMs int64    `json:"elapsed_ms"`
}

func runOne(c runCase) (res runResult) {
	verifCur = &verifState{draws: c.Draws, params: c.Params}
	h, ok := verifHarnesses[c.Harness]
	if !ok {
		return runResult{Outcome: "no-such-harness"}
	}
	zzT0 := time.Now()
	defer func() {
		if e := recover(); e != nil {
			switch e := e.(type) {
			case verifAssertFailed:
				res.Outcome = "assert:" + e.label
			case verifAssumeFailed:
				res.Outcome = "assume-failed"
			default:
				res.Outcome = "panic"
				res.Msg = fmt.Sprint(e) + "\n" + string(debug.Stack())
			}
		}
		res.ElapsedMs = time.Since(zzT0).Milliseconds()
		res.Obs = verifCur.obs
		res.Exhausted = verifCur.exhausted
		res.Unused = len(verifCur.draws) - verifCur.pos
	}()
	h()
	res.Outcome = "end"
	return
}

// RunCases is the native replay entry point used by the test in zzmain.
func RunCases(in, out string) error {
	data, err := os.ReadFile(in)
	if err != nil {
		return err
	}
	var cases []runCase
	if err := json.Unmarshal(data, &cases); err != nil {
		return err
	}
	results := make([]runResult, len(cases))
	for i, c := range cases {
		results[i] = runOne(c)
	}
	o, _ := json.Marshal(results)
	return os.WriteFile(out, o, 0o644)
}

//go:build verif

// Package zzlib is the generic half of the generated-code harnesses: logical
// value trees, an independent Thrift binary codec written from the
// specification, structural equality, the registry of type adapters emitted
// by gengen, and the harness bodies for C01/C04/C05/C13/C14 (generated part).
package zzlib

import (
	"go.uber.org/thriftrw/protocol/stream"
	"go.uber.org/thriftrw/wire"
)

// Codec is what every generated struct-like type implements.
type Codec interface {
	ToWire() (wire.Value, error)
	FromWire(wire.Value) error
	Encode(stream.Writer) error
	Decode(stream.Reader) error
}

// Type is the adapter record of one generated type.
type Type struct {
	Name           string
	Kind           string
	ComplexDefault bool
	NFields        int
	FieldIDs       []int16
	FieldTypes     []wire.Type
	FieldRequired  []bool
	Any            func(d int) Codec
	Nil            func() Codec
	Fresh          func() Codec
	Tree           func(Codec) *Node
	Valid          func(Codec) bool
	Defaults       func(Codec)
	Clear          func(Codec, int) bool
	Equals         func(a, b Codec) bool
	IsNil          func(Codec) bool
}

var types []*Type

type constCheck struct {
	name string
	ok   func() bool
}

var consts []constCheck

// RegisterConst records a check that a generated constant equals its IDL literal.
func RegisterConst(name string, ok func() bool) { consts = append(consts, constCheck{name, ok}) }

// RegisterType is called from the init functions of the emitted adapters.
func RegisterType(t *Type) { types = append(types, t) }

// TypeByName finds a registered type.
func TypeByName(name string) *Type {
	for _, t := range types {
		if t.Name == name {
			return t
		}
	}
	panic("zzlib: unknown type " + name)
}

// TypeAt returns the i-th type in name order.
func TypeAt(i int) *Type {
	// selection sort view: deterministic whatever the init order
	var best *Type
	used := map[string]bool{}
	for k := 0; k <= i; k++ {
		best = nil
		for _, t := range types {
			if used[t.Name] {
				continue
			}
			if best == nil || t.Name < best.Name {
				best = t
			}
		}
		if best == nil {
			panic("zzlib: type index out of range")
		}
		used[best.Name] = true
	}
	return best
}

// NumTypes returns the number of registered types.
func NumTypes() int { return len(types) }

// ---------------------------------------------------------------------------
// Logical values
// ---------------------------------------------------------------------------

// Node is a logical Thrift value.
type Node struct {
	T      wire.Type
	Num    uint64
	B      []byte
	IDs    []int16
	Kids   []*Node
	Vals   []*Node
	KT, VT wire.Type
}

func Leaf(t wire.Type, num uint64) *Node { return &Node{T: t, Num: num} }
func Bin(b []byte) *Node                 { return &Node{T: wire.TBinary, B: b} }
func List(kt wire.Type) *Node            { return &Node{T: wire.TList, KT: kt} }
func Set(kt wire.Type) *Node             { return &Node{T: wire.TSet, KT: kt} }
func Map(kt, vt wire.Type) *Node         { return &Node{T: wire.TMap, KT: kt, VT: vt} }
func Struct() *Node                      { return &Node{T: wire.TStruct} }

func (n *Node) Add(c *Node)     { n.Kids = append(n.Kids, c) }
func (n *Node) AddKV(k, v *Node) { n.Kids = append(n.Kids, k); n.Vals = append(n.Vals, v) }
func (n *Node) AddField(id int16, c *Node) {
	n.IDs = append(n.IDs, id)
	n.Kids = append(n.Kids, c)
}

// AnyBytes returns nil, an empty slice or up to l symbolic bytes.
func AnyBytes(l int) []byte {
	n := verifChoice(l + 1)
	if n == 0 {
		if verifChoice(2) == 0 {
			return nil
		}
		return []byte{}
	}
	if StrLen > 0 {
		return longBytes()
	}
	if ConcreteLeaves {
		return []byte("ABCDEFGH"[:n])
	}
	return verifBytes(n)
}

func put16(out []byte, v uint16) []byte { return append(out, byte(v>>8), byte(v)) }
func put32(out []byte, v uint32) []byte {
	return append(out, byte(v>>24), byte(v>>16), byte(v>>8), byte(v))
}
func put64(out []byte, v uint64) []byte {
	return append(out, byte(v>>56), byte(v>>48), byte(v>>40), byte(v>>32), byte(v>>24), byte(v>>16), byte(v>>8), byte(v))
}

// SpecEncode is the reference encoder (Thrift binary protocol).
func SpecEncode(n *Node, out []byte) []byte { return specEncode(n, out, nil) }

// SpecEncodeMarks also records, as offset*4+kind, the offset of every 4-byte
// length or count field of the encoding (kind 0 binary length, 1 list/set
// count preceded by one element-type byte, 2 map count preceded by two).
func SpecEncodeMarks(n *Node, out []byte, marks *[]int) []byte { return specEncode(n, out, marks) }

func specEncode(n *Node, out []byte, marks *[]int) []byte {
	mark := func(off, kind int) {
		if marks != nil {
			*marks = append(*marks, off*4+kind)
		}
	}
	switch n.T {
	case wire.TBool, wire.TI8:
		out = append(out, byte(n.Num))
	case wire.TI16:
		out = put16(out, uint16(n.Num))
	case wire.TI32:
		out = put32(out, uint32(n.Num))
	case wire.TI64, wire.TDouble:
		out = put64(out, n.Num)
	case wire.TBinary:
		mark(len(out), 0)
		out = put32(out, uint32(len(n.B)))
		out = append(out, n.B...)
	case wire.TStruct:
		for i, f := range n.Kids {
			out = append(out, byte(f.T))
			out = put16(out, uint16(n.IDs[i]))
			out = specEncode(f, out, marks)
		}
		out = append(out, 0)
	case wire.TList, wire.TSet:
		out = append(out, byte(n.KT))
		mark(len(out), 1)
		out = put32(out, uint32(len(n.Kids)))
		for _, e := range n.Kids {
			out = specEncode(e, out, marks)
		}
	case wire.TMap:
		out = append(out, byte(n.KT), byte(n.VT))
		mark(len(out), 2)
		out = put32(out, uint32(len(n.Kids)))
		for i := range n.Kids {
			out = specEncode(n.Kids[i], out, marks)
			out = specEncode(n.Vals[i], out, marks)
		}
	}
	return out
}

func get32(b []byte, p int) uint32 {
	return uint32(b[p])<<24 | uint32(b[p+1])<<16 | uint32(b[p+2])<<8 | uint32(b[p+3])
}

// SpecDecode is the reference decoder: it parses a value of wire type t at
// b[p:] and returns the logical tree and the next offset. Structural bytes
// (type codes, lengths, counts) are made concrete by forking.
func SpecDecode(b []byte, p int, t wire.Type, depth int) (*Node, int, bool) {
	if depth > 8 {
		return nil, p, false
	}
	need := func(k int) bool { return p+k <= len(b) }
	switch t {
	case wire.TBool, wire.TI8:
		if !need(1) {
			return nil, p, false
		}
		return Leaf(t, uint64(b[p])), p + 1, true
	case wire.TI16:
		if !need(2) {
			return nil, p, false
		}
		return Leaf(t, uint64(b[p])<<8|uint64(b[p+1])), p + 2, true
	case wire.TI32:
		if !need(4) {
			return nil, p, false
		}
		return Leaf(t, uint64(get32(b, p))), p + 4, true
	case wire.TI64, wire.TDouble:
		if !need(8) {
			return nil, p, false
		}
		return Leaf(t, uint64(get32(b, p))<<32|uint64(get32(b, p+4))), p + 8, true
	case wire.TBinary:
		if !need(4) {
			return nil, p, false
		}
		l := verifConcrete(int(int32(get32(b, p))))
		p += 4
		if l < 0 || p+l > len(b) {
			return nil, p, false
		}
		return Bin(b[p : p+l]), p + l, true
	case wire.TStruct:
		n := Struct()
		for {
			if !need(1) {
				return nil, p, false
			}
			ft := wire.Type(verifConcrete(int(b[p])))
			p++
			if ft == 0 {
				return n, p, true
			}
			if !need(2) {
				return nil, p, false
			}
			id := int16(uint16(b[p])<<8 | uint16(b[p+1]))
			p += 2
			c, np, ok := SpecDecode(b, p, ft, depth+1)
			if !ok {
				return nil, np, false
			}
			p = np
			n.AddField(id, c)
		}
	case wire.TList, wire.TSet:
		if !need(5) {
			return nil, p, false
		}
		n := &Node{T: t, KT: wire.Type(verifConcrete(int(b[p])))}
		cnt := verifConcrete(int(int32(get32(b, p+1))))
		p += 5
		if cnt < 0 || cnt > len(b) {
			return nil, p, false
		}
		for i := 0; i < cnt; i++ {
			c, np, ok := SpecDecode(b, p, n.KT, depth+1)
			if !ok {
				return nil, np, false
			}
			p = np
			n.Add(c)
		}
		return n, p, true
	case wire.TMap:
		if !need(6) {
			return nil, p, false
		}
		n := &Node{T: t, KT: wire.Type(verifConcrete(int(b[p]))), VT: wire.Type(verifConcrete(int(b[p+1])))}
		cnt := verifConcrete(int(int32(get32(b, p+2))))
		p += 6
		if cnt < 0 || cnt > len(b) {
			return nil, p, false
		}
		for i := 0; i < cnt; i++ {
			k, np, ok := SpecDecode(b, p, n.KT, depth+1)
			if !ok {
				return nil, np, false
			}
			v, np2, ok := SpecDecode(b, np, n.VT, depth+1)
			if !ok {
				return nil, np2, false
			}
			p = np2
			n.AddKV(k, v)
		}
		return n, p, true
	}
	return nil, p, false
}

// Eq is the structural comparison of two logical values (1 equal, 0 not):
// lists positional, sets and maps as matchings of duplicate-free collections,
// struct fields matched by id, every scalar by its bits (doubles too: the
// codec must preserve bit patterns). Written without short-circuit operators.
func Eq(a, b *Node) uint64 {
	if a.T != b.T {
		return 0
	}
	switch a.T {
	case wire.TBool, wire.TI8, wire.TI16, wire.TI32, wire.TI64, wire.TDouble:
		return uint64(verifB2I(a.Num == b.Num))
	case wire.TBinary:
		if len(a.B) != len(b.B) {
			return 0
		}
		var d byte
		for i := range a.B {
			d |= a.B[i] ^ b.B[i]
		}
		return uint64(verifB2I(d == 0))
	case wire.TStruct:
		if len(a.Kids) != len(b.Kids) {
			return 0
		}
		all := uint64(1)
		for i := range a.Kids {
			var any uint64
			for j := range b.Kids {
				any |= uint64(verifB2I(a.IDs[i] == b.IDs[j])) & Eq(a.Kids[i], b.Kids[j])
			}
			all &= any
		}
		return all
	case wire.TList:
		if a.KT != b.KT || len(a.Kids) != len(b.Kids) {
			return 0
		}
		all := uint64(1)
		for i := range a.Kids {
			all &= Eq(a.Kids[i], b.Kids[i])
		}
		return all
	case wire.TSet:
		if len(a.Kids) != len(b.Kids) || (len(a.Kids) > 0 && a.KT != b.KT) {
			return 0
		}
		all := uint64(1)
		for i := range a.Kids {
			var any uint64
			for j := range b.Kids {
				any |= Eq(a.Kids[i], b.Kids[j])
			}
			all &= any
		}
		return all
	case wire.TMap:
		if len(a.Kids) != len(b.Kids) || (len(a.Kids) > 0 && (a.KT != b.KT || a.VT != b.VT)) {
			return 0
		}
		all := uint64(1)
		for i := range a.Kids {
			var any uint64
			for j := range b.Kids {
				any |= Eq(a.Kids[i], b.Kids[j]) & Eq(a.Vals[i], b.Vals[j])
			}
			all &= any
		}
		return all
	}
	return 0
}

// EqValue is Eq except that doubles compare with == (for Equals checks).
func EqValue(a, b *Node) uint64 {
	if a.T != b.T {
		return 0
	}
	switch a.T {
	case wire.TDouble:
		return uint64(verifB2I(verifF64frombits(a.Num) == verifF64frombits(b.Num)))
	case wire.TStruct:
		if len(a.Kids) != len(b.Kids) {
			return 0
		}
		all := uint64(1)
		for i := range a.Kids {
			var any uint64
			for j := range b.Kids {
				any |= uint64(verifB2I(a.IDs[i] == b.IDs[j])) & EqValue(a.Kids[i], b.Kids[j])
			}
			all &= any
		}
		return all
	case wire.TList:
		if len(a.Kids) != len(b.Kids) || (len(a.Kids) > 0 && a.KT != b.KT) {
			return 0
		}
		all := uint64(1)
		for i := range a.Kids {
			all &= EqValue(a.Kids[i], b.Kids[i])
		}
		return all
	case wire.TSet:
		if len(a.Kids) != len(b.Kids) || (len(a.Kids) > 0 && a.KT != b.KT) {
			return 0
		}
		all := uint64(1)
		for i := range a.Kids {
			var any uint64
			for j := range b.Kids {
				any |= EqValue(a.Kids[i], b.Kids[j])
			}
			all &= any
		}
		return all
	case wire.TMap:
		if len(a.Kids) != len(b.Kids) || (len(a.Kids) > 0 && (a.KT != b.KT || a.VT != b.VT)) {
			return 0
		}
		all := uint64(1)
		for i := range a.Kids {
			var any uint64
			for j := range b.Kids {
				any |= EqValue(a.Kids[i], b.Kids[j]) & EqValue(a.Vals[i], b.Vals[j])
			}
			all &= any
		}
		return all
	}
	return Eq(a, b)
}

// HasNaN reports (as 0/1) whether any double leaf is NaN.
func HasNaN(n *Node) uint64 {
	if n.T == wire.TDouble {
		return uint64(verifB2I(verifIsNaN(verifF64frombits(n.Num))))
	}
	var r uint64
	for _, k := range n.Kids {
		r |= HasNaN(k)
	}
	for _, k := range n.Vals {
		r |= HasNaN(k)
	}
	return r
}

// ConcreteLeaves makes the value builders use fixed leaf values (only the
// shape stays nondeterministic). Used where the symbolic part of the input
// is a mutation of the encoding rather than the value.
var ConcreteLeaves bool

// exported wrappers of the harness API for the emitted adapters
func VerifBool() bool {
	if ConcreteLeaves {
		return true
	}
	return verifBool()
}
func VerifI8() int8 {
	if ConcreteLeaves {
		return 3
	}
	return verifI8()
}
func VerifI16() int16 {
	if ConcreteLeaves {
		return 300
	}
	return verifI16()
}
func VerifI32() int32 {
	if ConcreteLeaves {
		return 70001
	}
	return verifI32()
}
func VerifI64() int64 {
	if ConcreteLeaves {
		return 5000000001
	}
	return verifI64()
}
func VerifF64() float64 {
	if ConcreteLeaves {
		return 1.5
	}
	return verifF64()
}
func VerifChoice(n int) int { return verifChoice(n) }
// StrLen, when > 0, makes every string and binary leaf that long (boundary
// lengths of the writers' internal buffers), pattern content with a symbolic
// first and last byte.
var StrLen int

func longBytes() []byte {
	b := make([]byte, StrLen)
	for i := range b {
		b[i] = byte('a' + i%23)
	}
	b[0], b[StrLen-1] = verifByte(), verifByte()
	return b
}

func VerifString(n int) string {
	if StrLen > 0 && n > 0 {
		return string(longBytes())
	}
	if ConcreteLeaves {
		return "abcdefgh"[:n]
	}
	return verifString(n)
}
func VerifB2I(b bool) int { return verifB2I(b) }
func VerifAssume(c bool)  { verifAssume(c) }

// Register adds a harness entry point to the replay registry.
func Register(name string, f func()) { verifHarnesses[name] = f }

// Pat is a presence pattern for the nilable fields of a struct: all subsets
// when there are at most 4 of them; otherwise none / all / exactly one /
// all but one.
type Pat struct{ mode, idx int }

func Pattern(n, d int) Pat {
	if verifParam("simple") == 2 {
		return Pat{mode: 2} // every nilable field present
	}
	if d < verifParam("depth") || verifParam("simple") == 1 {
		// nested value: every nilable field absent, or every one present
		// (each type is explored in full as a top-level value)
		return Pat{mode: 1 + verifChoice(2)}
	}
	if n <= 4 {
		return Pat{mode: 0}
	}
	m := verifChoice(2 + 2*n)
	switch {
	case m == 0:
		return Pat{mode: 1}
	case m == 1:
		return Pat{mode: 2}
	case m < 2+n:
		return Pat{mode: 3, idx: m - 2}
	}
	return Pat{mode: 4, idx: m - 2 - n}
}

// Has says whether the i-th nilable field is set.
func (p Pat) Has(i int) bool {
	switch p.mode {
	case 0:
		return verifChoice(2) == 1
	case 1:
		return false
	case 2:
		return true
	case 3:
		return i == p.idx
	}
	return i != p.idx
}

// Free says whether the sizes of the i-th field's containers are chosen
// freely (0..K) rather than fixed at K.
func (p Pat) Free(i int) bool { return p.mode == 0 || p.mode == 3 }

// CloneFresh returns a value of the same shape as n (same field ids, same
// container sizes and binary lengths) with fresh symbolic leaves; sets and
// map keys stay duplicate-free by assumption.
func CloneFresh(n *Node) *Node {
	c := &Node{T: n.T, KT: n.KT, VT: n.VT, IDs: n.IDs}
	switch n.T {
	case wire.TBool:
		c.Num = uint64(verifB2I(verifBool()))
	case wire.TI8:
		c.Num = uint64(uint8(verifI8()))
	case wire.TI16:
		c.Num = uint64(uint16(verifI16()))
	case wire.TI32:
		c.Num = uint64(uint32(verifI32()))
	case wire.TI64:
		c.Num = verifU64()
	case wire.TDouble:
		c.Num = verifU64()
		verifAssume(!verifIsNaN(verifF64frombits(c.Num)))
	case wire.TBinary:
		c.B = verifBytes(len(n.B))
	}
	for i, k := range n.Kids {
		ck := CloneFresh(k)
		if n.T == wire.TSet || n.T == wire.TMap {
			for _, o := range c.Kids {
				verifAssume(EqValue(o, ck) == 0)
			}
		}
		c.Kids = append(c.Kids, ck)
		if n.T == wire.TMap {
			c.Vals = append(c.Vals, CloneFresh(n.Vals[i]))
		}
	}
	return c
}

// ContainerSize picks the number of elements of a container: the bound K
// (parameter "k", default 1) when sizes are fixed, else any size 0..K.
func ContainerSize(free bool) int {
	k := verifParam("k")
	if k == 0 {
		k = 1
	}
	if free {
		return verifChoice(k + 1)
	}
	return k
}

//go:build verif

package zzlib

import (
	"bytes"
	"io"

	"go.uber.org/thriftrw/protocol/binary"
	"go.uber.org/thriftrw/wire"
)

// curType selects the type under test. It also dirties the codec's object
// pools the way a busy process would: a random-access decode leaves a
// StreamReader in the pool that was last used over a seekable source.
func curType() *Type {
	warmPools()
	return TypeAt(verifParam("type"))
}

func warmPools() {
	binary.Default.Decode(bytes.NewReader([]byte{0x02, 0x00, 0x01, 0x01, 0x00}), wire.TStruct)
	var buf bytes.Buffer
	binary.Default.Encode(wire.NewValueStruct(wire.Struct{}), &buf)
}

func encodeStream(v Codec) ([]byte, error) {
	var buf bytes.Buffer
	sw := binary.Default.Writer(&buf)
	err := v.Encode(sw)
	sw.Close()
	return buf.Bytes(), err
}

func encodeWire(v Codec) ([]byte, error) {
	w, err := v.ToWire()
	if err != nil {
		return nil, err
	}
	var buf bytes.Buffer
	err = binary.Default.Encode(w, &buf)
	return buf.Bytes(), err
}

type oneShot struct {
	b           []byte
	off         int
	eofWithData bool // the read delivering the last byte also returns io.EOF
}

func (r *oneShot) Read(p []byte) (int, error) {
	if r.off >= len(r.b) {
		return 0, io.EOF
	}
	n := copy(p, r.b[r.off:])
	r.off += n
	if r.eofWithData && r.off == len(r.b) {
		return n, io.EOF
	}
	return n, nil
}

// eofReaderAt returns io.EOF together with a read ending at the end of input.
type eofReaderAt struct{ b []byte }

func (r *eofReaderAt) ReadAt(p []byte, off int64) (int, error) {
	if off < 0 || off >= int64(len(r.b)) {
		return 0, io.EOF
	}
	n := copy(p, r.b[off:])
	if n < len(p) || int(off)+n == len(r.b) {
		return n, io.EOF
	}
	return n, nil
}

func decodeStreamEOF(t *Type, b []byte) (Codec, error) {
	x := t.Fresh()
	sr := binary.Default.Reader(&oneShot{b: b, eofWithData: true})
	err := x.Decode(sr)
	sr.Close()
	return x, err
}

func decodeWireEOF(t *Type, b []byte) (Codec, error) {
	w, err := binary.Default.Decode(&eofReaderAt{b: b}, wire.TStruct)
	if err != nil {
		return nil, err
	}
	x := t.Fresh()
	err = x.FromWire(w)
	return x, err
}

// boundedSeeker gives up (assume(false): the path is outside this check)
// once the decoder has made more calls than a linear bound allows; inputs
// that make a decoder spin are C13's subject, not C04/C05's.
type boundedSeeker struct {
	r            *bytes.Reader
	calls, limit int
}

func (c *boundedSeeker) tick() {
	c.calls++
	if c.calls > c.limit {
		verifAssume(false)
	}
}
func (c *boundedSeeker) Read(p []byte) (int, error) { c.tick(); return c.r.Read(p) }
func (c *boundedSeeker) Seek(o int64, w int) (int64, error) {
	c.tick()
	return c.r.Seek(o, w)
}

func decodeStream(t *Type, b []byte, seekable bool) (Codec, error) {
	x := t.Fresh()
	var r io.Reader = &oneShot{b: b}
	if seekable {
		r = &boundedSeeker{r: bytes.NewReader(b), limit: 32 + 4*len(b)}
	}
	sr := binary.Default.Reader(r)
	err := x.Decode(sr)
	sr.Close()
	return x, err
}

func decodeWire(t *Type, b []byte) (Codec, error) {
	w, err := binary.Default.Decode(bytes.NewReader(b), wire.TStruct)
	if err != nil {
		return nil, err
	}
	x := t.Fresh()
	err = x.FromWire(w)
	return x, err
}

func bytesDiff(a, b []byte) byte {
	var d byte
	for i := range a {
		d |= a[i] ^ b[i]
	}
	return d
}

// H01: both serializers produce what the reference codec decodes to the
// logical value; both deserializers turn the reference encoding back into
// the value with defaults filled in; schema-violating values are rejected.
func H01() {
	t := curType()
	v := t.Any(verifParam("depth"))
	valid := t.Valid(v)
	verifObserveBool("valid", valid)

	b1, e1 := encodeStream(v)
	b2, e2 := encodeWire(v)
	if !valid {
		verifAssert(e1 != nil, "invalid-value-rejected-by-Encode")
		verifAssert(e2 != nil, "invalid-value-rejected-by-ToWire")
		verifReached("end")
		return
	}
	verifAssert(e1 == nil, "valid-value-encodes-stream")
	verifAssert(e2 == nil, "valid-value-encodes-wire")
	bare := t.Tree(v) // the value as given (unset optionals absent)
	t.Defaults(v)     // the logical value: declared defaults filled in
	wantD := t.Tree(v)
	n1, p1, ok1 := SpecDecode(b1, 0, wire.TStruct, 0)
	verifAssert(ok1 && p1 == len(b1), "stream-output-is-wellformed")
	n2, p2, ok2 := SpecDecode(b2, 0, wire.TStruct, 0)
	verifAssert(ok2 && p2 == len(b2), "wire-output-is-wellformed")
	if !t.ComplexDefault {
		verifAssert(Eq(n1, wantD) == 1, "stream-output-decodes-to-value")
		verifAssert(Eq(n2, wantD) == 1, "wire-output-decodes-to-value")
	} else {
		verifAssert(Eq(n1, n2) == 1, "serializers-agree")
	}

	ref := SpecEncode(bare, nil)
	verifObserveBytes("ref", ref)
	x, ex := decodeStream(t, ref, false)
	verifAssert(ex == nil, "reference-encoding-decodes-stream")
	y, ey := decodeWire(t, ref)
	verifAssert(ey == nil, "reference-encoding-decodes-wire")
	if !t.ComplexDefault {
		verifAssert(Eq(t.Tree(x), wantD) == 1, "stream-decode-yields-value-with-defaults")
		verifAssert(Eq(t.Tree(y), wantD) == 1, "wire-decode-yields-value-with-defaults")
	} else {
		verifAssert(Eq(t.Tree(x), t.Tree(y)) == 1, "decoders-agree")
	}
	// sources that return io.EOF together with the last bytes
	x2, ex2 := decodeStreamEOF(t, ref)
	verifAssert(ex2 == nil, "reference-encoding-decodes-stream-eof-with-data")
	y2, ey2 := decodeWireEOF(t, ref)
	verifAssert(ey2 == nil, "reference-encoding-decodes-wire-eof-with-data")
	verifAssert(Eq(t.Tree(x2), t.Tree(x)) == 1, "stream-eof-with-data-same-value")
	verifAssert(Eq(t.Tree(y2), t.Tree(y)) == 1, "wire-eof-with-data-same-value")
	verifReached("end")
}

// HConst: every generated constant of a primitive type equals its IDL literal.
func HConst() {
	for _, c := range consts {
		verifAssert(c.ok(), "constant-equals-literal:"+c.name)
	}
	verifAssert(len(consts) > 0, "constants-present")
	verifReached("end")
}

// compareDecoders is the bytes direction of C04.
func compareDecoders(t *Type, b []byte) {
	y, ey := decodeWire(t, b)
	x1, e1 := decodeStream(t, b, true)
	x2, e2 := decodeStream(t, b, false)
	verifObserveBool("wire-accepts", ey == nil)
	if ey == nil {
		verifAssert(e1 == nil, "stream(seekable)-accepts-what-wire-accepts")
		verifAssert(e2 == nil, "stream(non-seekable)-accepts-what-wire-accepts")
		ty := t.Tree(y)
		verifAssert(Eq(t.Tree(x1), ty) == 1, "stream(seekable)-equals-wire")
		verifAssert(Eq(t.Tree(x2), ty) == 1, "stream(non-seekable)-equals-wire")
	}
	if e1 == nil && e2 == nil {
		verifAssert(Eq(t.Tree(x1), t.Tree(x2)) == 1, "stream-readers-agree")
	}
	verifAssert((e1 == nil) == (e2 == nil), "stream-readers-agree-on-acceptance")
}

// H04a: arbitrary bytes.
func H04a() {
	t := curType()
	b := verifBytes(verifParam("n"))
	compareDecoders(t, b)
	verifReached("end")
}

// H04b: reference encodings of valid values, truncated or with one or two
// arbitrary byte substitutions.
func H04b() {
	t := curType()
	ConcreteLeaves = true
	v := t.Any(verifParam("depth"))
	ConcreteLeaves = false
	verifAssume(t.Valid(v))
	ref := SpecEncode(t.Tree(v), nil)
	b := append([]byte(nil), ref...)
	if verifChoice(2) == 0 {
		b = b[:verifChoice(len(b)+1)]
	} else {
		for m := 0; m < verifParam("muts"); m++ {
			b[verifChoice(len(b))] = verifByte()
		}
	}
	compareDecoders(t, b)
	verifReached("end")
}

// chunky is a non-seekable reader whose first `free` reads return an
// arbitrary count >= 1 (or, once, zero); later reads are maximal.
type chunky struct {
	b     []byte
	off   int
	zeros int
	free  int
}

func (r *chunky) Read(p []byte) (int, error) {
	if len(p) == 0 {
		return 0, nil
	}
	if r.off >= len(r.b) {
		return 0, io.EOF
	}
	max := len(r.b) - r.off
	if len(p) < max {
		max = len(p)
	}
	k := max
	if r.free != 0 {
		if r.free > 0 {
			r.free--
		}
		lo := 1
		if r.zeros > 0 {
			lo = 0
		}
		k = lo + verifChoice(max-lo+1)
		if k == 0 {
			r.zeros--
			return 0, nil
		}
	}
	copy(p[:k], r.b[r.off:r.off+k])
	r.off += k
	return k, nil
}

// H04c: read segmentation. An evolved encoding (an unknown field of a
// fixed-width or nested shape in front, which the streaming path must skip)
// decoded from a stream whose first reads are arbitrarily segmented gives
// what the value path gives.
func H04c() {
	t := curType()
	ConcreteLeaves = true
	v := t.Any(verifParam("depth"))
	ConcreteLeaves = false
	verifAssume(t.Valid(v))
	tree := t.Tree(v)
	id := int16(30000)
	for _, fid := range t.FieldIDs {
		verifAssume(fid != id)
	}
	insertField(tree, 0, id, foreign(verifChoice(nForeign)))
	b := SpecEncode(tree, nil)
	y, ey := decodeWire(t, b)
	x := t.Fresh()
	sr := binary.Default.Reader(&chunky{b: b, zeros: 1, free: verifParam("free")})
	ex := x.Decode(sr)
	sr.Close()
	verifAssert((ex == nil) == (ey == nil), "segmented-stream-agrees-on-acceptance")
	if ex == nil && ey == nil {
		verifAssert(Eq(t.Tree(x), t.Tree(y)) == 1, "segmented-stream-equals-wire")
	}
	verifReached("end")
}

// H04v: the value direction of C04 — for every Go value, including invalid
// ones, both serializers fail or both succeed with equal logical output.
func H04v() {
	t := curType()
	StrLen = verifParam("strlen")
	v := t.Any(verifParam("depth"))
	StrLen = 0
	b1, e1 := encodeStream(v)
	b2, e2 := encodeWire(v)
	verifObserveBool("encodes", e1 == nil)
	verifAssert((e1 == nil) == (e2 == nil), "serializers-agree-on-acceptance")
	if e1 == nil && e2 == nil {
		n1, p1, ok1 := SpecDecode(b1, 0, wire.TStruct, 0)
		n2, p2, ok2 := SpecDecode(b2, 0, wire.TStruct, 0)
		verifAssert(ok1 && ok2 && p1 == len(b1) && p2 == len(b2), "outputs-wellformed")
		verifAssert(Eq(n1, n2) == 1, "serializers-agree-on-value")
		if !t.ComplexDefault {
			t.Defaults(v)
			verifAssert(Eq(n1, t.Tree(v)) == 1, "serializers-output-is-the-value")
		}
	}
	verifReached("end")
}

// foreign builds a well-formed value of one of 14 shapes for an unknown or
// retyped field.
func foreign(shape int) *Node {
	leaf := func(t wire.Type) *Node {
		switch t {
		case wire.TBool:
			return Leaf(t, uint64(verifB2I(verifBool())))
		case wire.TI8:
			return Leaf(t, uint64(uint8(verifI8())))
		case wire.TI16:
			return Leaf(t, uint64(uint16(verifI16())))
		case wire.TI32:
			return Leaf(t, uint64(uint32(verifI32())))
		case wire.TBinary:
			return Bin(verifBytes(verifChoice(3)))
		}
		return Leaf(t, verifU64())
	}
	switch shape {
	case 0:
		return leaf(wire.TBool)
	case 1:
		return leaf(wire.TI8)
	case 2:
		return leaf(wire.TI16)
	case 3:
		return leaf(wire.TI32)
	case 4:
		return leaf(wire.TI64)
	case 5:
		return leaf(wire.TDouble)
	case 6:
		return leaf(wire.TBinary)
	case 7:
		n := List(wire.TI32)
		n.Add(leaf(wire.TI32))
		n.Add(leaf(wire.TI32))
		return n
	case 8:
		n := Set(wire.TBinary)
		n.Add(leaf(wire.TBinary))
		return n
	case 9:
		n := Map(wire.TI16, wire.TBinary)
		n.AddKV(leaf(wire.TI16), leaf(wire.TBinary))
		return n
	case 10:
		n := List(wire.TStruct)
		s := Struct()
		s.AddField(verifI16(), leaf(wire.TI64))
		n.Add(s)
		n.Add(Struct())
		return n
	case 11:
		return Struct()
	case 12:
		s := Struct()
		in := Struct()
		in.AddField(verifI16(), leaf(wire.TBinary))
		s.AddField(verifI16(), in)
		s.AddField(7, leaf(wire.TBool))
		return s
	case 13:
		n := Map(wire.TBinary, wire.TList)
		l := List(wire.TBool)
		l.Add(leaf(wire.TBool))
		n.AddKV(leaf(wire.TBinary), l)
		return n
	default:
		// "any nesting depth": 70 levels, structs and single-element lists of
		// structs alternating, a scalar at the bottom
		cur := leaf(wire.TI8)
		for d := 0; d < 70; d++ {
			st := Struct()
			st.AddField(1, cur)
			cur = st
			if d%2 == 1 {
				l := List(wire.TStruct)
				l.Add(cur)
				cur = l
			}
		}
		return cur
	}
}

const nForeign = 15

func insertField(n *Node, pos int, id int16, c *Node) {
	n.IDs = append(n.IDs, 0)
	n.Kids = append(n.Kids, nil)
	copy(n.IDs[pos+1:], n.IDs[pos:])
	copy(n.Kids[pos+1:], n.Kids[pos:])
	n.IDs[pos] = id
	n.Kids[pos] = c
}

func removeField(n *Node, pos int) {
	n.IDs = append(n.IDs[:pos], n.IDs[pos+1:]...)
	n.Kids = append(n.Kids[:pos], n.Kids[pos+1:]...)
}

func fieldIndex(t *Type, id int16) int {
	for i, fid := range t.FieldIDs {
		if fid == id {
			return i
		}
	}
	return -1
}

// H05: one evolution step applied to the reference encoding of a valid value.
func H05() {
	t := curType()
	v := t.Any(verifParam("depth"))
	verifAssume(t.Valid(v))
	tree := t.Tree(v)
	step := verifParam("step")
	expectFail := false
	switch step {
	case 0: // an unknown field of any shape at any field boundary
		id := verifI16()
		for _, fid := range t.FieldIDs {
			verifAssume(fid != id)
		}
		pos := 0
		if verifParam("ends") == 2 {
			pos = 0 // in front only
		} else if verifParam("ends") == 1 {
			pos = verifChoice(2) * len(tree.Kids) // first or last boundary only
		} else {
			pos = verifChoice(len(tree.Kids) + 1)
		}
		insertField(tree, pos, id, foreign(verifChoice(nForeign)))
	case 1: // a declared, present field re-encoded with another wire type
		verifAssume(len(tree.Kids) > 0)
		pos := verifChoice(len(tree.Kids))
		fi := fieldIndex(t, tree.IDs[pos])
		nf := verifParam("nshapes")
		if nf == 0 {
			nf = nForeign
		}
		f := foreign(verifChoice(nf))
		verifAssume(f.T != t.FieldTypes[fi])
		tree.Kids[pos] = f
		if !t.Clear(v, fi) {
			expectFail = true // a required scalar cannot be absent
		} else if t.FieldRequired[fi] {
			expectFail = true
		}
	case 2: // a declared, present field removed
		verifAssume(len(tree.Kids) > 0)
		pos := verifChoice(len(tree.Kids))
		fi := fieldIndex(t, tree.IDs[pos])
		removeField(tree, pos)
		if !t.Clear(v, fi) {
			expectFail = true
		} else if t.FieldRequired[fi] {
			expectFail = true
		}
	case 4: // a present container field re-encoded as the same kind of container with another element type
		verifAssume(len(tree.Kids) > 0)
		pos := verifChoice(len(tree.Kids))
		fi := fieldIndex(t, tree.IDs[pos])
		old := tree.Kids[pos]
		verifAssume(old.T == wire.TList || old.T == wire.TSet || old.T == wire.TMap)
		var repl *Node
		switch old.T {
		case wire.TList:
			repl = List(wire.TI64)
			repl.Add(Leaf(wire.TI64, verifU64()))
			verifAssume(old.KT != wire.TI64)
		case wire.TSet:
			repl = Set(wire.TI64)
			repl.Add(Leaf(wire.TI64, verifU64()))
			verifAssume(old.KT != wire.TI64)
		default:
			// key and value of different widths (a decoder that skips by the
			// wrong one of the two types loses its place in the stream)
			repl = Map(wire.TI64, wire.TI8)
			repl.AddKV(Leaf(wire.TI64, verifU64()), Leaf(wire.TI8, uint64(verifByte())))
			verifAssume(old.KT != wire.TI64)
		}
		tree.Kids[pos] = repl
		// both real paths read such a field as a nil container (contents skipped
		// unvalidated) and count it as present: no error even when required
		verifAssume(t.Clear(v, fi))
	case 3: // fields reordered (reversed)
		for i, j := 0, len(tree.Kids)-1; i < j; i, j = i+1, j-1 {
			tree.Kids[i], tree.Kids[j] = tree.Kids[j], tree.Kids[i]
			tree.IDs[i], tree.IDs[j] = tree.IDs[j], tree.IDs[i]
		}
	}
	if (t.Kind == "union" || t.Kind == "result01") && step == 4 {
		verifAssume(false) // a union whose member reads as nil: arity error or not depends on the path; out of this step's claim
	}
	if t.Kind == "union" && (step == 1 || step == 2) {
		expectFail = true // the only member is gone
	}
	b := SpecEncode(tree, nil)
	verifObserveBytes("evolved", b)
	x, ex := decodeStream(t, b, false)
	y, ey := decodeWire(t, b)
	if verifParam("chunk") > 0 {
		// the same from a stream whose first reads are arbitrarily segmented
		z := t.Fresh()
		sr := binary.Default.Reader(&chunky{b: b, zeros: 1, free: verifParam("chunk")})
		ez := z.Decode(sr)
		sr.Close()
		verifAssert((ez == nil) == (ex == nil), "segmented-stream-agrees-on-acceptance")
		if ez == nil && ex == nil {
			verifAssert(Eq(t.Tree(z), t.Tree(x)) == 1, "segmented-stream-same-value")
		}
	}
	verifObserveBool("fails", expectFail)
	if expectFail {
		verifAssert(ex != nil, "missing-required-rejected-stream")
		verifAssert(ey != nil, "missing-required-rejected-wire")
		verifReached("end")
		return
	}
	verifAssert(ex == nil, "evolved-encoding-accepted-stream")
	verifAssert(ey == nil, "evolved-encoding-accepted-wire")
	t.Defaults(v)
	want := t.Tree(v)
	if !t.ComplexDefault {
		verifAssert(Eq(t.Tree(x), want) == 1, "remaining-fields-unaffected-stream")
		verifAssert(Eq(t.Tree(y), want) == 1, "remaining-fields-unaffected-wire")
	} else {
		verifAssert(Eq(t.Tree(x), t.Tree(y)) == 1, "decoders-agree")
	}
	verifReached("end")
}

// counting readers for C13 (see protocol/binary harness for the rationale)
type cSeeker struct {
	r            *bytes.Reader
	calls, limit int
}

func (c *cSeeker) tick() {
	c.calls++
	if c.calls > c.limit {
		verifAssert(false, "work-linear")
	}
}
func (c *cSeeker) Read(p []byte) (int, error) { c.tick(); return c.r.Read(p) }
func (c *cSeeker) Seek(o int64, w int) (int64, error) {
	c.tick()
	return c.r.Seek(o, w)
}
func (c *cSeeker) ReadAt(p []byte, off int64) (int, error) { c.tick(); return c.r.ReadAt(p, off) }

type cReader struct {
	r            *oneShot
	calls, limit int
}

func (c *cReader) Read(p []byte) (int, error) {
	c.calls++
	if c.calls > c.limit {
		verifAssert(false, "work-linear")
	}
	return c.r.Read(p)
}

func costAPI(t *Type, api int, b []byte) {
	lim := 32 + 4*len(b)
	verifAllocBegin()
	switch api {
	case 0:
		w, err := binary.Default.Decode(&cSeeker{r: bytes.NewReader(b), limit: lim}, wire.TStruct)
		if err == nil {
			t.Fresh().FromWire(w)
		}
	case 1:
		sr := binary.Default.Reader(&cSeeker{r: bytes.NewReader(b), limit: lim})
		t.Fresh().Decode(sr)
		sr.Close()
	case 2:
		sr := binary.Default.Reader(&cReader{r: &oneShot{b: b}, limit: lim})
		t.Fresh().Decode(sr)
		sr.Close()
	}
	verifAllocEnd(len(b))
}

// H13a: arbitrary short messages through the generated deserializers.
func H13a() {
	t := curType()
	b := verifBytes(verifParam("n"))
	costAPI(t, verifParam("api"), b)
	verifAssert(true, "cost-bounded")
	verifReached("end")
}

// H13b: reference encoding of a valid value in which one length or count
// field (each in turn) is replaced by an arbitrary int32 and, with typeflip,
// the element type byte(s) in front of a count by arbitrary bytes.
func H13b() {
	t := curType()
	ConcreteLeaves = true
	v := t.Any(verifParam("depth"))
	ConcreteLeaves = false
	verifAssume(t.Valid(v))
	var marks []int
	b := SpecEncodeMarks(t.Tree(v), nil, &marks)
	verifAssume(len(marks) > 0)
	mk := marks[verifChoice(len(marks))]
	pos, kind := mk/4, mk%4
	x := uint32(verifI32())
	verifAssume(x >= 1<<16)
	verifAssume(x < 1<<31) // the property's range of declared lengths: 2^16 .. 2^31-1
	b[pos], b[pos+1], b[pos+2], b[pos+3] = byte(x>>24), byte(x>>16), byte(x>>8), byte(x)
	if verifParam("typeflip") == 1 {
		// also let the declared element / key / value type byte be arbitrary
		verifAssume(kind > 0)
		b[pos-1] = verifByte()
		if kind == 2 {
			b[pos-2] = verifByte()
		}
	}
	costAPI(t, verifParam("api"), b)
	verifAssert(true, "cost-bounded")
	verifReached("end")
}

// decoded returns the value obtained by decoding the reference encoding of
// an arbitrary valid value (what "values obtained by decoding" means).
func decoded(t *Type, depth int) (Codec, *Node) {
	v := t.Any(depth)
	verifAssume(t.Valid(v))
	tree := t.Tree(v)
	verifAssume(HasNaN(tree) == 0)
	x, err := decodeWire(t, SpecEncode(tree, nil))
	verifAssert(err == nil, "reference-encoding-decodes")
	return x, t.Tree(x)
}

// H14g: generated Equals on values obtained by decoding.
func H14g() {
	t := curType()
	d := verifParam("depth")
	x, tx := decoded(t, d)
	var y Codec
	var ty *Node
	if verifParam("sameshape") == 1 {
		// y: same shape as x, independent leaves
		var err error
		y, err = decodeWire(t, SpecEncode(CloneFresh(tx), nil))
		verifAssert(err == nil, "reference-encoding-decodes")
		ty = t.Tree(y)
	} else {
		y, ty = decoded(t, d)
	}
	verifAssert(t.Equals(x, x), "reflexive")
	xy := t.Equals(x, y)
	yx := t.Equals(y, x)
	verifObserveBool("xy", xy)
	verifAssert(xy == yx, "symmetric")
	want := EqValue(tx, ty)
	verifAssert(uint64(verifB2I(xy)) == want, "equals-matches-structural-oracle")
	wx, e1 := x.ToWire()
	wy, e2 := y.ToWire()
	verifAssert(e1 == nil && e2 == nil, "decoded-values-encode")
	verifAssert(wire.ValuesAreEqual(wx, wy) == xy, "equals-matches-wire-equality")
	// nil receivers and arguments never panic
	t.Equals(t.Nil(), x)
	t.Equals(x, t.Nil())
	verifAssert(t.Equals(t.Nil(), t.Nil()), "nil-equals-nil")
	verifAssert(!t.Equals(x, t.Nil()), "value-differs-from-nil")
	verifReached("end")
}

// H14t: transitivity on same-type triples.
func H14t() {
	t := curType()
	d := verifParam("depth")
	x, _ := decoded(t, d)
	y, _ := decoded(t, d)
	z, _ := decoded(t, d)
	if t.Equals(x, y) && t.Equals(y, z) {
		verifAssert(t.Equals(x, z), "transitive")
	}
	verifAssert(true, "no-panic")
	verifReached("end")
}

// HBig: two values above the 1 MiB threshold in one message (a separate code
// path in the binary reader) come back intact through both deserializers.
// Contents are a fixed pattern except for a few symbolic bytes.
func HBig() {
	warmPools()
	t := TypeByName("vcore.Big")
	const l = 1<<20 + 1
	mk := func(seed int) []byte {
		b := make([]byte, l)
		for i := range b {
			b[i] = byte(i*seed + 1)
		}
		b[0], b[l/2], b[l-1] = verifByte(), verifByte(), verifByte()
		return b
	}
	a, b := mk(3), mk(5)
	tree := Struct()
	tree.AddField(1, Bin(a))
	tree.AddField(2, Bin(b))
	ref := SpecEncode(tree, nil)
	check := func(x Codec, err error, label string) {
		verifAssert(err == nil, label+"-decodes")
		got := t.Tree(x)
		verifAssert(len(got.Kids) == 2 && len(got.Kids[0].B) == l && len(got.Kids[1].B) == l, label+"-lengths")
		ga, gb := got.Kids[0].B, got.Kids[1].B
		var d byte
		for _, i := range []int{0, 1, l / 2, l - 2, l - 1} {
			d |= ga[i] ^ a[i]
			d |= gb[i] ^ b[i]
		}
		verifAssert(d == 0, label+"-contents")
	}
	x, ex := decodeStream(t, ref, false)
	check(x, ex, "big-stream")
	y, ey := decodeWire(t, ref)
	check(y, ey, "big-wire")
	verifReached("end")
}

// Witness twin.
func HWitness() {
	H01()
	verifAssert(false, "reachable")
}

//go:build verif

package compare

import (
	"strings"

	"go.uber.org/thriftrw/ast"
	"go.uber.org/thriftrw/compile"
)

func init() {
	verifHarnesses["h20"] = h20
	verifHarnesses["h20_witness"] = h20_witness
}

func zzMod(path string) *compile.Module {
	return &compile.Module{
		Name:       "m",
		ThriftPath: path,
		Includes:   make(map[string]*compile.IncludedModule),
		Constants:  make(map[string]*compile.Constant),
		Types:      make(map[string]compile.TypeSpec),
		Services:   make(map[string]*compile.ServiceSpec),
	}
}

// zzLinkedTypedef returns a linked typedef (its root type resolved), as the
// compiler would hand it to the linter.
func zzLinkedTypedef(name string, target compile.TypeSpec) compile.TypeSpec {
	t, err := (&compile.TypedefSpec{Name: name, File: "/git/a/b.thrift", Target: target}).Link(zzMod("/git/a/b.thrift"))
	if err != nil {
		panic(err)
	}
	return t
}

// the field types a declaration can name: three base types and two typedefs
// whose underlying types are among them
var zzTypes = [...]compile.TypeSpec{&compile.I32Spec{}, &compile.StringSpec{}, &compile.BoolSpec{},
	zzLinkedTypedef("UUID", &compile.StringSpec{}), zzLinkedTypedef("Count", &compile.I32Spec{})}

// h20: two in-memory versions of one file; the diagnostics must be exactly
// those the documented rules prescribe, whatever the map iteration order.
func h20() {
	const file = "/git/a/b.thrift"
	from, to := zzMod(file), zzMod(file)
	p := &Pass{GitDir: "/git"}

	wantDelSvc, wantRmMethod, wantAddReq, wantOptReq, wantType := 0, 0, 0, 0, 0

	// ---- structs: S (2 fields) and T (1 field) in "from" ----
	nStructs := verifParam("ns")
	names := [...]string{"S", "T"}
	for si := 0; si < nStructs; si++ {
		nf := 2 - si
		fs := &compile.StructSpec{Name: names[si], File: file}
		var ids []int16
		var ftypes []int
		for fi := 0; fi < nf; fi++ {
			id := verifI16()
			for _, o := range ids {
				verifAssume(o != id)
			}
			ids = append(ids, id)
			fti := verifChoice(len(zzTypes))
			ftypes = append(ftypes, fti)
			fs.Fields = append(fs.Fields, &compile.FieldSpec{ID: id, Name: []string{"x", "y"}[fi], Type: zzTypes[fti], Required: verifBool()})
		}
		from.Types[names[si]] = fs
		if verifChoice(2) == 0 {
			continue // struct deleted in "to": allowed, no diagnostic
		}
		ts := &compile.StructSpec{Name: names[si], File: file}
		var tids []int16
		for fi, ff := range fs.Fields {
			if verifChoice(2) == 0 {
				continue // field removed: not flagged by the documented rules
			}
			// new declared type: unchanged, the typedef/base partner with the same
			// underlying type, or a type with another underlying type
			partner := [...]int{4, 3, 0, 1, 0}
			other := [...]int{1, 2, 3, 2, 1}
			nti := ftypes[fi]
			switch verifChoice(3) {
			case 1:
				nti = partner[nti]
			case 2:
				nti = other[nti]
			}
			tf := &compile.FieldSpec{ID: ff.ID, Name: ff.Name, Type: zzTypes[nti], Required: verifBool()}
			ts.Fields = append(ts.Fields, tf)
			tids = append(tids, tf.ID)
			if !ff.Required && tf.Required {
				wantOptReq++
			}
			if ff.Type.ThriftName() != tf.Type.ThriftName() {
				wantType++
			}
		}
		if verifChoice(2) == 1 {
			// a new field whose id is not used by any field of either version
			id := verifI16()
			for _, o := range ids {
				verifAssume(o != id)
			}
			nfld := &compile.FieldSpec{ID: id, Name: "z", Type: zzTypes[0], Required: verifBool()}
			ts.Fields = append(ts.Fields, nfld)
			if nfld.Required {
				wantAddReq++
			}
		}
		to.Types[names[si]] = ts
	}
	// a brand-new struct with a required field is additive
	if verifChoice(2) == 1 {
		to.Types["N"] = &compile.StructSpec{Name: "N", File: file, Fields: compile.FieldGroup{{ID: 1, Name: "r", Type: zzTypes[0], Required: true}}}
	}

	// ---- services ----
	nSvc := verifParam("nv")
	snames := [...]string{"A", "B"}
	for si := 0; si < nSvc; si++ {
		fsv := &compile.ServiceSpec{Name: snames[si], File: file, Functions: map[string]*compile.FunctionSpec{}}
		nfn := 2 - si
		for fi := 0; fi < nfn; fi++ {
			n := []string{"f", "g"}[fi]
			fsv.Functions[n] = &compile.FunctionSpec{Name: n}
		}
		from.Services[snames[si]] = fsv
		if verifChoice(2) == 0 {
			wantDelSvc++
			continue
		}
		tsv := &compile.ServiceSpec{Name: snames[si], File: file, Functions: map[string]*compile.FunctionSpec{}}
		if verifParam("parent") == 1 && verifChoice(2) == 1 {
			// the new version extends a service that declares the same method
			// names; a method removed from this service is still removed
			par := &compile.ServiceSpec{Name: "Base", File: file, Functions: map[string]*compile.FunctionSpec{}}
			for n := range fsv.Functions {
				par.Functions[n] = &compile.FunctionSpec{Name: n}
			}
			tsv.Parent = par
			to.Services["Base"] = par
		}
		for n := range fsv.Functions {
			if verifChoice(2) == 0 {
				wantRmMethod++
				continue
			}
			tsv.Functions[n] = &compile.FunctionSpec{Name: n}
		}
		if verifChoice(2) == 1 {
			tsv.Functions["h"] = &compile.FunctionSpec{Name: "h"} // new method: additive
		}
		to.Services[snames[si]] = tsv
	}
	if verifChoice(2) == 1 {
		to.Services["C"] = &compile.ServiceSpec{Name: "C", File: file, Functions: map[string]*compile.FunctionSpec{}}
	}

	p.CompareModules(from, to)

	gotDelSvc, gotRmMethod, gotAddReq, gotOptReq, gotType, other := 0, 0, 0, 0, 0, 0
	for _, d := range p.Lints() {
		switch {
		case strings.HasPrefix(d.Message, "deleting service"):
			gotDelSvc++
			verifAssert(d.FilePath == "b.thrift", "deleted-service-file")
		case strings.HasPrefix(d.Message, "removing method"):
			gotRmMethod++
			verifAssert(d.FilePath == "a/b.thrift", "removed-method-file")
		case strings.HasPrefix(d.Message, "adding a required field"):
			gotAddReq++
			verifAssert(d.FilePath == "a/b.thrift", "added-required-file")
		case strings.HasPrefix(d.Message, "changing an optional field"):
			gotOptReq++
			verifAssert(d.FilePath == "a/b.thrift", "optional-to-required-file")
		case strings.HasPrefix(d.Message, "changing type of field"):
			gotType++
			verifAssert(d.FilePath == "a/b.thrift", "type-change-file")
		default:
			other++
		}
	}
	verifObserveInt("diagnostics", int64(len(p.Lints())))
	verifAssert(other == 0, "no-undocumented-diagnostic")
	verifAssert(gotDelSvc == wantDelSvc, "deleted-services")
	verifAssert(gotRmMethod == wantRmMethod, "removed-methods")
	verifAssert(gotAddReq == wantAddReq, "added-required-fields")
	verifAssert(gotOptReq == wantOptReq, "optional-to-required")
	verifAssert(gotType == wantType, "type-changes")
	verifReached("end")
}

func h20_witness() {
	h20()
	verifAssert(false, "reachable")
}

func init() {
	verifHarnesses["h20k"] = h20k
}

// h20k: one Pass over two changed files (as git.Compare does) that declare
// definitions of the same names, of every struct-like kind; the same edit
// script applied to the first file and, by choice, to the second. Every
// diagnostic must be there once per edited file, attributed to that file.
func h20k() {
	files := [...]string{"/git/a/b.thrift", "/git/c/b.thrift"}
	rels := [...]string{"a/b.thrift", "c/b.thrift"}
	p := &Pass{GitDir: "/git"}

	kind := [...]ast.StructureType{ast.StructType, ast.UnionType, ast.ExceptionType}[verifChoice(3)]
	id := verifI16()
	fti := verifChoice(3)
	nti := fti
	if verifChoice(2) == 1 {
		nti = (fti + 1) % 3
	}
	fromReq, toReq := verifBool(), verifBool()
	addField, addReq := verifChoice(2) == 1, verifBool()
	addID := verifI16()
	verifAssume(addID != id)
	if kind == ast.UnionType {
		// members of a union cannot be required
		verifAssume(!fromReq && !toReq && !addReq)
	}
	rmMethod := verifChoice(2) == 1
	second := verifChoice(2) == 1

	var want [2]struct{ rm, addReq, optReq, typ int }
	for fi, file := range files {
		from, to := zzMod(file), zzMod(file)
		edited := fi == 0 || second
		fs := &compile.StructSpec{Name: "U", File: file, Type: kind,
			Fields: compile.FieldGroup{{ID: id, Name: "x", Type: zzTypes[fti], Required: fromReq}}}
		from.Types["U"] = fs
		ts := &compile.StructSpec{Name: "U", File: file, Type: kind,
			Fields: compile.FieldGroup{{ID: id, Name: "x", Type: zzTypes[fti], Required: fromReq}}}
		if edited {
			ts.Fields[0].Type = zzTypes[nti]
			ts.Fields[0].Required = toReq
			if nti != fti {
				want[fi].typ++
			}
			if !fromReq && toReq {
				want[fi].optReq++
			}
			if addField {
				ts.Fields = append(ts.Fields, &compile.FieldSpec{ID: addID, Name: "z", Type: zzTypes[0], Required: addReq})
				if addReq {
					want[fi].addReq++
				}
			}
		}
		to.Types["U"] = ts
		fsv := &compile.ServiceSpec{Name: "A", File: file, Functions: map[string]*compile.FunctionSpec{"f": {Name: "f"}}}
		tsv := &compile.ServiceSpec{Name: "A", File: file, Functions: map[string]*compile.FunctionSpec{}}
		if edited && rmMethod {
			want[fi].rm++
		} else {
			tsv.Functions["f"] = &compile.FunctionSpec{Name: "f"}
		}
		from.Services["A"], to.Services["A"] = fsv, tsv
		p.CompareModules(from, to)
	}

	var got [2]struct{ rm, addReq, optReq, typ int }
	other := 0
	for _, d := range p.Lints() {
		fi := -1
		for i, r := range rels {
			if d.FilePath == r {
				fi = i
			}
		}
		if fi < 0 {
			other++
			continue
		}
		switch {
		case strings.HasPrefix(d.Message, "removing method"):
			got[fi].rm++
		case strings.HasPrefix(d.Message, "adding a required field"):
			got[fi].addReq++
		case strings.HasPrefix(d.Message, "changing an optional field"):
			got[fi].optReq++
		case strings.HasPrefix(d.Message, "changing type of field"):
			got[fi].typ++
		default:
			other++
		}
	}
	verifObserveInt("diagnostics", int64(len(p.Lints())))
	verifAssert(other == 0, "every-diagnostic-documented-and-in-an-edited-file")
	for fi := range files {
		verifAssert(got[fi].rm == want[fi].rm, "removed-methods-per-file")
		verifAssert(got[fi].addReq == want[fi].addReq, "added-required-fields-per-file")
		verifAssert(got[fi].optReq == want[fi].optReq, "optional-to-required-per-file")
		verifAssert(got[fi].typ == want[fi].typ, "type-changes-per-file")
	}
	verifReached("end")
}

//go:build verif

package internal

import (
	"strings"
	"unicode"

	"go.uber.org/thriftrw/ast"
)

func init() {
	verifHarnesses["h11a"] = h11a
	verifHarnesses["h11b"] = h11b
	verifHarnesses["h11c"] = h11c
	verifHarnesses["h11d"] = h11d
	verifHarnesses["h11_witness"] = h11_witness
	verifHarnesses["h11e"] = h11e
	verifHarnesses["h11s"] = h11s
	verifHarnesses["h11p"] = h11p
}

// h11p: layout. Every gap between the tokens of two definitions is one or
// two symbolic white-space bytes (space, tab, CR, LF): the document is
// accepted and each definition carries the 1-based line and column of its
// first byte, computed here from the bytes written.
func h11p() {
	ws := func() []byte {
		n := 1 + verifChoice(2)
		b := verifBytes(n)
		for _, c := range b {
			verifAssume(verifB2I(c == ' ')|verifB2I(c == '\t')|verifB2I(c == '\r')|verifB2I(c == '\n') == 1)
		}
		return b
	}
	var doc []byte
	line, col := 1, 1
	put := func(b []byte) {
		for _, c := range b {
			doc = append(doc, c)
			if c == '\n' {
				line++
				col = 1
			} else {
				col++
			}
		}
	}
	kind := verifChoice(3)
	head := [...]string{"const", "typedef", "struct"}[kind]
	l0, c0 := line, col
	put([]byte(head))
	put(ws())
	switch kind {
	case 0:
		put([]byte("i32 x = 1"))
	case 1:
		put([]byte("i32 T"))
	default:
		put([]byte("S {}"))
	}
	put(ws())
	l1, c1 := line, col
	put([]byte("const"))
	put(ws())
	put([]byte("i32 y = 2"))
	res, errs := Parse(doc)
	verifObserveBytes("doc", doc)
	verifAssert(len(errs) == 0 && res.Program != nil, "valid-document-accepted")
	verifAssert(len(res.Program.Definitions) == 2, "two-definitions")
	d0, d1 := res.Program.Definitions[0].Info(), res.Program.Definitions[1].Info()
	verifAssert(d0.Line == l0, "first-definition-line")
	verifAssert(d1.Line == l1, "second-definition-line")
	pos0, pos1 := zzPosOf(res.Program.Definitions[0]), zzPosOf(res.Program.Definitions[1])
	verifAssert(pos0.Line == l0 && pos0.Column == c0, "first-definition-position")
	verifAssert(pos1.Line == l1 && pos1.Column == c1, "second-definition-position")
	verifReached("end")
}

func zzPosOf(d ast.Definition) ast.Position {
	switch v := d.(type) {
	case *ast.Constant:
		return ast.Position{Line: v.Line, Column: v.Column}
	case *ast.Typedef:
		return ast.Position{Line: v.Line, Column: v.Column}
	case *ast.Struct:
		return ast.Position{Line: v.Line, Column: v.Column}
	}
	return ast.Position{}
}

// zzRefUnescape is the reference reading of a Thrift literal body, left to
// right, for the escapes on whose meaning Apache Thrift and this
// implementation agree: \n \r \t \\ \' \". ok is false if the body is not a
// literal of that restricted grammar (bad escape, raw quote, raw newline,
// non-ASCII byte).
func zzRefUnescape(body []byte, q byte) (out []byte, ok bool) {
	for i := 0; i < len(body); i++ {
		c := body[i]
		if c == '\\' {
			i++
			if i >= len(body) {
				return nil, false
			}
			switch body[i] {
			case 'n':
				out = append(out, '\n')
			case 'r':
				out = append(out, '\r')
			case 't':
				out = append(out, '\t')
			case '\\':
				out = append(out, '\\')
			case '\'':
				out = append(out, '\'')
			case '"':
				out = append(out, '"')
			default:
				return nil, false
			}
			continue
		}
		if c == q || c == '\n' || c >= 0x80 {
			return nil, false
		}
		out = append(out, c)
	}
	return out, true
}

// h11a: every literal of n bytes (restricted escapes, ASCII) unquotes to the
// reference value without error.
func h11a() {
	n := verifParam("n")
	dq := verifParam("dq")
	in := verifBytes(n)
	q := byte('\'')
	if dq == 1 {
		q = '"'
	}
	verifAssume(in[0] == q)
	verifAssume(in[n-1] == q)
	want, ok := zzRefUnescape(in[1:n-1], q)
	verifAssume(ok)
	var got string
	var err error
	if dq == 1 {
		got, err = UnquoteDoubleQuoted(in)
	} else {
		got, err = UnquoteSingleQuoted(in)
	}
	verifObserveBool("err", err != nil)
	verifAssert(err == nil, "valid-literal-accepted")
	verifObserveStr("got", got)
	verifAssert(len(got) == len(want), "literal-value-len")
	var d byte
	for i := 0; i < len(want); i++ {
		d |= got[i] ^ want[i]
	}
	verifAssert(d == 0, "literal-value")
	verifReached("end")
}

// h11b: ParseDocstring never panics.
func h11b() {
	n := verifParam("n")
	s := verifString(n)
	out := ParseDocstring(s)
	verifAssert(len(out) <= n, "docstring-not-longer")
	// whitespace-only lines of the comment come back as empty lines
	for _, l := range strings.Split(out, "\n") {
		if n > 4 {
			break // this assertion multiplies the paths; stated bound: inputs of <= 4 bytes
		}
		verifAssert(l == "" || strings.IndexFunc(l, zzNotSpace) >= 0, "docstring-whitespace-only-line-is-empty")
	}
	verifReached("end")
}

func zzNotSpace(r rune) bool { return !unicode.IsSpace(r) }

// h11c: a literal in context through the whole real lexer and parser.
func h11c() {
	n := verifParam("n")
	lit := verifBytes(n)
	q := lit[0]
	verifAssume(verifB2I(q == '"')|verifB2I(q == '\'') == 1)
	qc := byte(verifConcrete(int(q)))
	verifAssume(lit[n-1] == qc)
	want, ok := zzRefUnescape(lit[1:n-1], qc)
	verifAssume(ok)
	doc := append([]byte("const string x = "), lit...)
	doc = append(doc, []byte("\nconst i32 y = 1")...)
	res, errs := Parse(doc)
	verifObserveInt("nerrs", int64(len(errs)))
	verifAssert(len(errs) == 0, "valid-document-accepted")
	verifAssert(res.Program != nil, "program-returned")
	verifAssert(len(res.Program.Definitions) == 2, "two-definitions")
	c0, ok0 := res.Program.Definitions[0].(*ast.Constant)
	verifAssert(ok0, "first-is-constant")
	sv, oks := c0.Value.(ast.ConstantString)
	verifAssert(oks, "value-is-string")
	verifAssert(len(sv) == len(want), "context-literal-len")
	var d byte
	for i := 0; i < len(want); i++ {
		d |= sv[i] ^ want[i]
	}
	verifAssert(d == 0, "context-literal-value")
	c1, ok1 := res.Program.Definitions[1].(*ast.Constant)
	verifAssert(ok1, "second-is-constant")
	verifAssert(c0.Line == 1 && c0.Column == 1, "first-position")
	verifAssert(c1.Line == 2 && c1.Column == 1, "second-position")
	verifAssert(c1.Name == "y", "second-name")
	verifReached("end")
}

// h11d: totality on arbitrary bytes: a program XOR a non-empty error list,
// error positions inside the document, never a panic.
func h11d() {
	n := verifParam("n")
	doc := verifBytes(n)
	res, errs := Parse(doc)
	hasProg := res.Program != nil
	verifObserveBool("program", hasProg)
	verifAssert(hasProg != (len(errs) > 0), "program-xor-errors")
	newlines := 0
	for _, c := range doc {
		newlines += verifB2I(c == '\n')
	}
	for _, e := range errs {
		verifAssert(e.Pos.Line >= 1, "error-line-positive")
		verifAssert(e.Pos.Line <= 1+newlines, "error-line-in-document")
		verifAssert(e.Pos.Column >= 1, "error-column-positive")
	}
	verifReached("end")
}

func h11_witness() {
	h11a()
	verifAssert(false, "reachable")
}

// h11e: integer literals through the real lexer and parser. Decimal literals
// of n symbolic digits (optionally signed, leading zeros included) and hex
// literals whose first digit is symbolic must come back as exactly the number
// written; a hex literal that does not fit in int64 must be rejected.
func h11e() {
	n := verifParam("n")
	kind := verifParam("kind") // 0 decimal, 1 hex with n digits (first symbolic, rest symbolic too when n <= 2, else '0')
	var lit []byte
	var want uint64
	fits := true
	if kind == 0 {
		sign := verifChoice(3) // none, +, -
		if sign == 1 {
			lit = append(lit, '+')
		} else if sign == 2 {
			lit = append(lit, '-')
		}
		for i := 0; i < n; i++ {
			c := verifByte()
			verifAssume(verifB2I(c >= '0')&verifB2I(c <= '9') == 1)
			lit = append(lit, c)
			want = want*10 + uint64(c-'0')
		}
		if sign == 2 {
			want = -want
		}
	} else {
		lit = append(lit, '0', 'x')
		for i := 0; i < n; i++ {
			c := byte('0')
			if i == 0 || n <= 2 {
				c = verifByte()
				isDigit := verifB2I(c >= '0') & verifB2I(c <= '9')
				isLower := verifB2I(c >= 'a') & verifB2I(c <= 'f')
				verifAssume(isDigit|isLower == 1)
			}
			lit = append(lit, c)
			var dv uint64
			if c <= '9' {
				dv = uint64(c - '0')
			} else {
				dv = uint64(c-'a') + 10
			}
			want = want<<4 | dv
		}
		if n == 16 {
			fits = want>>63 == 0
		}
	}
	doc := append([]byte("const i64 x = "), lit...)
	res, errs := Parse(doc)
	verifObserveInt("nerrs", int64(len(errs)))
	if !fits {
		verifAssert(len(errs) > 0, "out-of-range-literal-rejected")
		verifReached("end")
		return
	}
	verifAssert(len(errs) == 0, "integer-literal-accepted")
	c0, ok := res.Program.Definitions[0].(*ast.Constant)
	verifAssert(ok, "is-constant")
	iv, ok := c0.Value.(ast.ConstantInteger)
	verifAssert(ok, "is-integer")
	verifAssert(uint64(iv) == want, "integer-literal-value")
	verifReached("end")
}

// h11s: structure of field lists. A struct / exception / function parameter
// list of two fields is rendered from a menu (explicit id or none,
// requiredness keyword required / optional / none, separator , ; or none,
// optional docstring), optionally after an earlier Parse call that left a
// docstring unclaimed or failed; the AST must carry exactly the ids,
// requiredness, names, docstrings and line numbers that were written.
func h11s() {
	kind := verifChoice(3) // struct, exception, function parameters
	// an earlier, unrelated Parse call in the same process
	switch verifChoice(3) {
	case 1:
		Parse([]byte("struct Old {}\n/** stale docstring */"))
	case 2:
		Parse([]byte("/** stale docstring */ struct {"))
	}
	var doc []byte
	switch kind {
	case 0:
		doc = append(doc, "struct S {\n"...)
	case 1:
		doc = append(doc, "exception S {\n"...)
	default:
		doc = append(doc, "service V { void f(\n"...)
	}
	type fld struct {
		id     int
		hasID  bool
		req    int // 0 none 1 required 2 optional
		name   []byte
		hasDoc bool
	}
	var fs [2]fld
	for i := range fs {
		f := &fs[i]
		f.hasID = verifChoice(2) == 1
		f.id = i + 1
		f.req = verifChoice(3)
		f.hasDoc = i == 1 && verifChoice(2) == 1
		c := byte('q' + verifChoice(2))
		f.name = []byte{'f', c, byte('0' + i)}
		if f.hasDoc {
			doc = append(doc, "/** doc */ "...)
		}
		if f.hasID {
			doc = append(doc, byte('0'+f.id), ':', ' ')
		}
		switch f.req {
		case 1:
			doc = append(doc, "required "...)
		case 2:
			doc = append(doc, "optional "...)
		}
		doc = append(doc, "i32 "...)
		doc = append(doc, f.name...)
		switch verifChoice(3) {
		case 0:
			doc = append(doc, ',')
		case 1:
			doc = append(doc, ';')
		}
		doc = append(doc, '\n')
	}
	if kind == 2 {
		doc = append(doc, ") }\n"...)
	} else {
		doc = append(doc, "}\n"...)
	}
	res, errs := Parse(doc)
	verifAssert(len(errs) == 0, "field-list-accepted")
	verifAssert(len(res.Program.Definitions) == 1, "one-definition")
	var fields []*ast.Field
	switch d := res.Program.Definitions[0].(type) {
	case *ast.Struct:
		verifAssert((d.Type == ast.ExceptionType) == (kind == 1), "structure-kind")
		verifAssert(d.Doc == "", "no-stale-docstring-on-definition")
		fields = d.Fields
	case *ast.Service:
		verifAssert(kind == 2 && len(d.Functions) == 1, "service-shape")
		verifAssert(d.Doc == "", "no-stale-docstring-on-definition")
		fields = d.Functions[0].Parameters
	}
	verifAssert(len(fields) == 2, "two-fields")
	for i, f := range fields {
		w := fs[i]
		verifAssert(f.IDUnset == !w.hasID, "field-id-presence")
		if w.hasID {
			verifAssert(f.ID == w.id, "field-id")
		}
		want := ast.Unspecified
		if w.req == 1 {
			want = ast.Required
		} else if w.req == 2 {
			want = ast.Optional
		}
		verifAssert(f.Requiredness == want, "field-requiredness")
		verifAssert(len(f.Name) == 3 && f.Name[0] == 'f' && f.Name[1] == w.name[1] && f.Name[2] == w.name[2], "field-name")
		verifAssert(f.Line == 2+i, "field-line")
		if w.hasDoc {
			verifAssert(f.Doc == "doc", "field-docstring")
		} else {
			verifAssert(f.Doc == "", "no-docstring")
		}
	}
	verifReached("end")
}

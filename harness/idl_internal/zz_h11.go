//go:build verif

package internal

import (
	"go.uber.org/thriftrw/ast"
)

func init() {
	verifHarnesses["h11a"] = h11a
	verifHarnesses["h11b"] = h11b
	verifHarnesses["h11c"] = h11c
	verifHarnesses["h11d"] = h11d
	verifHarnesses["h11_witness"] = h11_witness
}

// zzRefUnescape is the reference reading of a Thrift literal body, left to
// right, for the escapes on whose meaning Apache Thrift and this
// implementation agree: \n \r \t \\ \' \". ok is false if the body is not a
// literal of that restricted grammar (bad escape, raw quote, raw newline,
// non-ASCII byte).
func zzRefUnescape(body []byte, q byte) (out []byte, ok bool) {
	for i := 0; i < len(body); i++ {
		c := body[i]
		if c == '\\' {
			i++
			if i >= len(body) {
				return nil, false
			}
			switch body[i] {
			case 'n':
				out = append(out, '\n')
			case 'r':
				out = append(out, '\r')
			case 't':
				out = append(out, '\t')
			case '\\':
				out = append(out, '\\')
			case '\'':
				out = append(out, '\'')
			case '"':
				out = append(out, '"')
			default:
				return nil, false
			}
			continue
		}
		if c == q || c == '\n' || c >= 0x80 {
			return nil, false
		}
		out = append(out, c)
	}
	return out, true
}

// h11a: every literal of n bytes (restricted escapes, ASCII) unquotes to the
// reference value without error.
func h11a() {
	n := verifParam("n")
	dq := verifParam("dq")
	in := verifBytes(n)
	q := byte('\'')
	if dq == 1 {
		q = '"'
	}
	verifAssume(in[0] == q)
	verifAssume(in[n-1] == q)
	want, ok := zzRefUnescape(in[1:n-1], q)
	verifAssume(ok)
	var got string
	var err error
	if dq == 1 {
		got, err = UnquoteDoubleQuoted(in)
	} else {
		got, err = UnquoteSingleQuoted(in)
	}
	verifObserveBool("err", err != nil)
	verifAssert(err == nil, "valid-literal-accepted")
	verifObserveStr("got", got)
	verifAssert(len(got) == len(want), "literal-value-len")
	var d byte
	for i := 0; i < len(want); i++ {
		d |= got[i] ^ want[i]
	}
	verifAssert(d == 0, "literal-value")
	verifReached("end")
}

// h11b: ParseDocstring never panics.
func h11b() {
	n := verifParam("n")
	s := verifString(n)
	out := ParseDocstring(s)
	verifAssert(len(out) <= n, "docstring-not-longer")
	verifReached("end")
}

// h11c: a literal in context through the whole real lexer and parser.
func h11c() {
	n := verifParam("n")
	lit := verifBytes(n)
	q := lit[0]
	verifAssume(verifB2I(q == '"')|verifB2I(q == '\'') == 1)
	qc := byte(verifConcrete(int(q)))
	verifAssume(lit[n-1] == qc)
	want, ok := zzRefUnescape(lit[1:n-1], qc)
	verifAssume(ok)
	doc := append([]byte("const string x = "), lit...)
	doc = append(doc, []byte("\nconst i32 y = 1")...)
	res, errs := Parse(doc)
	verifObserveInt("nerrs", int64(len(errs)))
	verifAssert(len(errs) == 0, "valid-document-accepted")
	verifAssert(res.Program != nil, "program-returned")
	verifAssert(len(res.Program.Definitions) == 2, "two-definitions")
	c0, ok0 := res.Program.Definitions[0].(*ast.Constant)
	verifAssert(ok0, "first-is-constant")
	sv, oks := c0.Value.(ast.ConstantString)
	verifAssert(oks, "value-is-string")
	verifAssert(len(sv) == len(want), "context-literal-len")
	var d byte
	for i := 0; i < len(want); i++ {
		d |= sv[i] ^ want[i]
	}
	verifAssert(d == 0, "context-literal-value")
	c1, ok1 := res.Program.Definitions[1].(*ast.Constant)
	verifAssert(ok1, "second-is-constant")
	verifAssert(c0.Line == 1 && c0.Column == 1, "first-position")
	verifAssert(c1.Line == 2 && c1.Column == 1, "second-position")
	verifAssert(c1.Name == "y", "second-name")
	verifReached("end")
}

// h11d: totality on arbitrary bytes: a program XOR a non-empty error list,
// error positions inside the document, never a panic.
func h11d() {
	n := verifParam("n")
	doc := verifBytes(n)
	res, errs := Parse(doc)
	hasProg := res.Program != nil
	verifObserveBool("program", hasProg)
	verifAssert(hasProg != (len(errs) > 0), "program-xor-errors")
	newlines := 0
	for _, c := range doc {
		newlines += verifB2I(c == '\n')
	}
	for _, e := range errs {
		verifAssert(e.Pos.Line >= 1, "error-line-positive")
		verifAssert(e.Pos.Line <= 1+newlines, "error-line-in-document")
		verifAssert(e.Pos.Column >= 1, "error-column-positive")
	}
	verifReached("end")
}

func h11_witness() {
	h11a()
	verifAssert(false, "reachable")
}

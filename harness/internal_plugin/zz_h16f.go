//go:build verif

package plugin

import (
	"errors"

	"go.uber.org/thriftrw/plugin/api"
)

func init() {
	verifHarnesses["h16f"] = h16f
}

// flag.go is loaded with process.NewClient(f.Command) textually redirected to
// zzNewClient(f) (see the check's Rewrites): the plugin "process" is a
// scripted transport looked up by plugin name.
var zzProcs map[string]*zzTransport

func zzNewClient(f *Flag) (*zzTransport, error) {
	t := zzProcs[f.Name]
	if t == nil {
		return nil, errors.New("stub: cannot start process")
	}
	return t, nil
}

// zzHandshakeOK is a well-formed handshake reply for a plugin of that name.
func zzHandshakeOK(name string, feats []uint32) []byte {
	resp := []byte{0x0b, 0x00, 0x01}
	resp = zzP32(resp, uint32(len(name)))
	resp = append(resp, name...)
	resp = append(resp, 0x08, 0x00, 0x02, 0, 0, 0, byte(api.APIVersion))
	resp = append(resp, 0x0f, 0x00, 0x03, 0x08)
	resp = zzP32(resp, uint32(len(feats)))
	for _, f := range feats {
		resp = zzP32(resp, f)
	}
	resp = append(resp, 0x00)
	body := append([]byte{0x0c, 0x00, 0x00}, resp...)
	body = append(body, 0x00)
	return zzEnv(2, "Plugin:handshake", 1, body)
}

// h16f: Flags.Handle over 1..3 plugins with independent scripts (process does
// not start / handshake under a wrong name / good handshake with or without
// the generator feature), opened in every order; then what main does with the
// result: generate through the combined generator and Close. Every plugin
// whose handshake succeeded gets exactly one goodbye and is closed exactly
// once, whatever happened to the others; generate reaches exactly the plugins
// that advertised the feature, and only when every handshake succeeded.
func h16f() {
	n := verifParam("plugins")
	names := [...]string{"p0", "p1", "p2"}
	zzProcs = map[string]*zzTransport{}
	var fs Flags
	var ts [3]*zzTransport
	var script, feature [3]int
	allOK := true
	for i := 0; i < n; i++ {
		script[i] = verifChoice(3) // 0 good, 1 wrong name, 2 process does not start
		fs = append(fs, Flag{Name: names[i]})
		if script[i] == 2 {
			allOK = false
			continue
		}
		f := uint32(verifI32())
		if f == uint32(api.FeatureServiceGenerator) {
			feature[i] = 1
		}
		replyName := names[i]
		if script[i] == 1 {
			replyName = "x" + names[i]
			allOK = false
		}
		gen := []byte{0x0c, 0x00, 0x00, 0x0d, 0x00, 0x01, 0x0b, 0x0b}
		gen = zzP32(gen, 1)
		gen = zzP32(gen, 2)
		gen = append(gen, 'f', byte('0'+i))
		gen = zzP32(gen, 1)
		gen = append(gen, 'x', 0x00, 0x00)
		ts[i] = &zzTransport{handshakeReply: zzHandshakeOK(replyName, []uint32{f}), genReply: zzEnv(2, "ServiceGenerator:generate", 1, gen)}
		zzProcs[names[i]] = ts[i]
	}

	mh, err := fs.Handle()
	verifObserveBool("handle-ok", err == nil)
	verifAssert((err == nil) == allOK, "handle-iff-every-plugin-opened")
	if err == nil {
		if sg := mh.ServiceGenerator(); sg != nil {
			_, gerr := sg.Generate(&api.GenerateServiceRequest{RootServices: []api.ServiceID{}, Services: map[api.ServiceID]*api.Service{}, Modules: map[api.ModuleID]*api.Module{}})
			verifAssert(gerr == nil, "generate-ok")
		}
		cerr := mh.Close()
		verifAssert(cerr == nil, "close-ok")
	}
	for i := 0; i < n; i++ {
		t := ts[i]
		if t == nil {
			continue
		}
		verifAssert(zzCountLog(t.log, "Plugin:handshake") == 1, "one-handshake-per-started-plugin")
		wantGoodbye, wantGen := 0, 0
		if script[i] == 0 {
			wantGoodbye = 1
			if allOK && feature[i] == 1 {
				wantGen = 1
			}
		}
		verifAssert(zzCountLog(t.log, "Plugin:goodbye") == wantGoodbye, "one-goodbye-iff-handshake-succeeded")
		verifAssert(zzCountLog(t.log, "ServiceGenerator:generate") == wantGen, "generate-only-after-gate-and-feature")
		verifAssert(t.closed == 1, "every-started-plugin-closed-once")
	}
	verifReached("end")
}

//go:build verif

package plugin

import (
	"go.uber.org/atomic"
	"go.uber.org/thriftrw/plugin/api"
)

// ZzNewServiceGenerator wraps an api.ServiceGenerator in the real validating
// serviceGenerator of transport.go, as ServiceGenerator() of a handshaken
// handle would.
func ZzNewServiceGenerator(name string, sg api.ServiceGenerator) ServiceGenerator {
	running := atomic.NewBool(true)
	h := &transportHandle{name: name, Running: running}
	return &serviceGenerator{handle: h, Running: running, ServiceGenerator: sg}
}

//go:build verif

package plugin

import (
	"errors"

	"go.uber.org/thriftrw/plugin/api"
)

func init() {
	verifHarnesses["h16a"] = h16a
	verifHarnesses["h16_witness"] = h16_witness
}

func zzP32(out []byte, v uint32) []byte {
	return append(out, byte(v>>24), byte(v>>16), byte(v>>8), byte(v))
}

// zzReqName parses the method name out of a strict request envelope.
func zzReqName(req []byte) string {
	if len(req) < 8 {
		return "?"
	}
	n := int(req[4])<<24 | int(req[5])<<16 | int(req[6])<<8 | int(req[7])
	if n < 0 || 8+n > len(req) {
		return "?"
	}
	return string(req[8 : 8+n])
}

// zzEnv builds a strict envelope by hand.
func zzEnv(typ byte, method string, seq uint32, body []byte) []byte {
	out := []byte{0x80, 0x01, 0x00, typ}
	out = zzP32(out, uint32(len(method)))
	out = append(out, method...)
	out = zzP32(out, seq)
	return append(out, body...)
}

type zzTransport struct {
	handshakeReply []byte
	genReply       []byte
	log            []string
	closed         int
	goodbyeFault   int // 0 ok, 1 exception envelope, 2 transport error, 3 truncated reply, 4 garbage
	genFault       int // 0 ok, 1 exception envelope, 2 transport error, 3 truncated reply, 4 garbage
}

func (t *zzTransport) Send(req []byte) ([]byte, error) {
	name := zzReqName(req)
	t.log = append(t.log, name)
	switch name {
	case "Plugin:handshake":
		return t.handshakeReply, nil
	case "Plugin:goodbye":
		switch t.goodbyeFault {
		case 1:
			return zzEnv(3, "Plugin:goodbye", 1, []byte{0x0b, 0x00, 0x01, 0, 0, 0, 1, 'x', 0x08, 0x00, 0x02, 0, 0, 0, 6, 0x00}), nil
		case 2:
			return nil, errors.New("pipe closed")
		case 3:
			return zzEnv(2, "Plugin:goodbye", 1, []byte{0})[:5], nil
		case 4:
			return []byte{0xff, 0xfe, 0x01}, nil
		}
		return zzEnv(2, "Plugin:goodbye", 1, []byte{0}), nil
	case "ServiceGenerator:generate":
		switch t.genFault {
		case 1:
			return zzEnv(3, "ServiceGenerator:generate", 1, []byte{0x0b, 0x00, 0x01, 0, 0, 0, 1, 'x', 0x08, 0x00, 0x02, 0, 0, 0, 6, 0x00}), nil
		case 2:
			return nil, errors.New("pipe closed")
		case 3:
			return t.genReply[:len(t.genReply)/2], nil
		case 4:
			return []byte{0xff, 0xfe, 0x01}, nil
		}
		return t.genReply, nil
	}
	return nil, errors.New("unexpected request")
}

func (t *zzTransport) Close() error {
	t.closed++
	return nil
}

func zzCountLog(log []string, name string) int {
	n := 0
	for _, l := range log {
		if l == name {
			n++
		}
	}
	return n
}

// h16a: the handshake gate. The reply envelope type, the plugin name, the
// API version and the feature list are symbolic; optionally the reply is
// truncated at an arbitrary offset.
func h16a() {
	l := verifParam("l")
	name := verifString(l) // the name the host expects (arbitrary bytes)
	typ := verifByte()
	verifAssume(typ < 0x80)
	gotName := verifString(l)
	var ver [4]byte
	for i := range ver {
		ver[i] = verifByte()
	}
	nfeat := verifChoice(3)
	var feats []uint32
	for i := 0; i < nfeat; i++ {
		feats = append(feats, uint32(verifI32()))
	}

	// HandshakeResponse, by hand
	resp := []byte{0x0b, 0x00, 0x01}
	resp = zzP32(resp, uint32(len(gotName)))
	resp = append(resp, gotName...)
	resp = append(resp, 0x08, 0x00, 0x02, ver[0], ver[1], ver[2], ver[3])
	resp = append(resp, 0x0f, 0x00, 0x03, 0x08)
	resp = zzP32(resp, uint32(len(feats)))
	for _, f := range feats {
		resp = zzP32(resp, f)
	}
	resp = append(resp, 0x00)
	body := append([]byte{0x0c, 0x00, 0x00}, resp...)
	body = append(body, 0x00)
	reply := zzEnv(typ, "Plugin:handshake", 1, body)

	truncated := false
	if verifChoice(2) == 1 {
		cut := verifChoice(len(reply))
		reply = reply[:cut]
		truncated = true
	}

	// generate reply: one file with a symbolic 3-byte path
	path := verifString(3)
	gen := []byte{0x0c, 0x00, 0x00, 0x0d, 0x00, 0x01, 0x0b, 0x0b}
	gen = zzP32(gen, 1)
	gen = zzP32(gen, 3)
	gen = append(gen, path...)
	gen = zzP32(gen, 1)
	gen = append(gen, 'x', 0x00, 0x00)
	t := &zzTransport{handshakeReply: reply, genReply: zzEnv(2, "ServiceGenerator:generate", 1, gen)}

	h, err := NewTransportHandle(name, t)
	verifObserveBool("handshake-ok", err == nil)

	sameName := 1
	for i := 0; i < l; i++ {
		sameName &= verifB2I(name[i] == gotName[i])
	}
	verOK := verifB2I(ver[0] == 0)&verifB2I(ver[1] == 0)&verifB2I(ver[2] == 0)&verifB2I(ver[3] == byte(api.APIVersion)) == 1
	good := !truncated && verifB2I(typ == 2)&sameName == 1 && verOK
	verifAssert((err == nil) == good, "handle-iff-good-handshake")
	verifAssert((h != nil) == (err == nil), "handle-xor-error")
	verifAssert(zzCountLog(t.log, "Plugin:handshake") == 1, "one-handshake-request")
	verifAssert(zzCountLog(t.log, "ServiceGenerator:generate") == 0, "no-generate-before-gate")

	if err != nil {
		verifAssert(len(t.log) == 1, "nothing-sent-after-failed-handshake")
		verifReached("end")
		return
	}

	hasFeature := 0
	for _, f := range feats {
		hasFeature |= verifB2I(f == uint32(api.FeatureServiceGenerator))
	}
	sg := h.ServiceGenerator()
	verifAssert((sg != nil) == (hasFeature == 1), "generator-iff-feature-advertised")
	if sg != nil {
		t.genFault = verifChoice(5)
		res, gerr := sg.Generate(&api.GenerateServiceRequest{RootServices: []api.ServiceID{}, Services: map[api.ServiceID]*api.Service{}, Modules: map[api.ModuleID]*api.Module{}})
		dotdot := verifB2I(path[0] == '.')&verifB2I(path[1] == '.') | verifB2I(path[1] == '.')&verifB2I(path[2] == '.')
		verifObserveBool("generate-err", gerr != nil)
		verifObserveInt("dotdot", int64(dotdot))
		if t.genFault != 0 {
			verifAssert(gerr != nil, "generate-fault-reported")
		} else {
			verifAssert((gerr != nil) == (dotdot == 1), "dotdot-paths-rejected")
		}
		if gerr == nil {
			verifAssert(len(res.Files) == 1, "files-delivered")
		}
		verifAssert(zzCountLog(t.log, "ServiceGenerator:generate") == 1, "one-generate-request")
	} else {
		verifAssert(zzCountLog(t.log, "ServiceGenerator:generate") == 0, "no-generate-without-feature")
	}

	// the goodbye step itself may be faulty: the transport must be closed all the same
	t.goodbyeFault = verifChoice(5)
	cerr := h.Close()
	verifAssert((cerr == nil) == (t.goodbyeFault == 0), "close-reports-goodbye-fault")
	verifAssert(zzCountLog(t.log, "Plugin:goodbye") == 1, "exactly-one-goodbye")
	verifAssert(t.closed == 1, "transport-closed-once")
	h.Close()
	verifAssert(zzCountLog(t.log, "Plugin:goodbye") == 1, "no-second-goodbye")
	verifAssert(t.closed == 1, "transport-not-closed-twice")
	verifReached("end")
}

func h16_witness() {
	h16a()
	verifAssert(false, "reachable")
}

//go:build verif

package frame

import (
	"bytes"
	"io"
)

func init() {
	verifHarnesses["h16b"] = h16b
	verifHarnesses["h13f"] = h13f
}

// zzChunky: the first `free` reads return an arbitrary count (>= 1, or one
// zero-length read), later reads are maximal.
type zzChunky struct {
	b     []byte
	off   int
	zeros int
	free  int
	calls int
	limit int
}

func (r *zzChunky) Read(p []byte) (int, error) {
	r.calls++
	if r.limit > 0 && r.calls > r.limit {
		verifAssert(false, "work-linear")
	}
	if len(p) == 0 {
		return 0, nil
	}
	if r.off >= len(r.b) {
		return 0, io.EOF
	}
	max := len(r.b) - r.off
	if len(p) < max {
		max = len(p)
	}
	k := max
	if r.free != 0 {
		if r.free > 0 {
			r.free--
		}
		lo := 1
		if r.zeros > 0 {
			lo = 0
		}
		k = lo + verifChoice(max-lo+1)
		if k == 0 {
			r.zeros--
			return 0, nil
		}
	}
	copy(p[:k], r.b[r.off:r.off+k])
	r.off += k
	return k, nil
}

func zzDiffB(a, b []byte) byte {
	var d byte
	for i := range a {
		d |= a[i] ^ b[i]
	}
	return d
}

// h16b: frames are delivered intact and in order under any segmentation; a
// truncated stream yields an error, never a short frame.
func h16b() {
	l1 := verifChoice(verifParam("l") + 1)
	l2 := verifChoice(verifParam("l") + 1)
	b1, b2 := verifBytes(l1), verifBytes(l2)
	var buf bytes.Buffer
	w := NewWriter(&buf)
	verifAssert(w.Write(b1) == nil, "write1-ok")
	verifAssert(w.Write(b2) == nil, "write2-ok")
	stream := buf.Bytes()
	verifAssert(len(stream) == 8+l1+l2, "stream-len")
	verifAssert(int(stream[3]) == l1 && stream[0]|stream[1]|stream[2] == 0, "length-prefix-1")

	cut := len(stream)
	if verifChoice(2) == 1 {
		cut = verifChoice(len(stream))
	}
	r := NewReader(&zzChunky{b: stream[:cut], zeros: 1, free: verifParam("free")})
	f1, e1 := r.Read()
	if cut >= 4+l1 {
		verifAssert(e1 == nil, "frame1-ok")
		verifAssert(len(f1) == l1, "frame1-len")
		verifAssert(zzDiffB(f1, b1) == 0, "frame1-payload")
		f2, e2 := r.Read()
		if cut == len(stream) {
			verifAssert(e2 == nil, "frame2-ok")
			verifAssert(len(f2) == l2, "frame2-len")
			verifAssert(zzDiffB(f2, b2) == 0, "frame2-payload")
			_, e3 := r.Read()
			verifAssert(e3 != nil, "eof-after-last-frame")
		} else {
			verifAssert(e2 != nil, "truncated-frame2-is-error")
		}
	} else {
		verifAssert(e1 != nil, "truncated-frame1-is-error")
	}
	verifReached("end")
}

// h13f: cost of reading a frame whose declared length is arbitrary (C13).
func h13f() {
	n := verifParam("n")
	b := verifBytes(n)
	src := &zzChunky{b: b, free: 0, limit: 64 + 32*n}
	r := NewReader(src)
	verifAllocBegin()
	r.Read()
	verifAllocEndK(n, 10<<20+4096)
	verifAssert(true, "cost-bounded")
	verifReached("end")
}

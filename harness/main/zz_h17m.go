//go:build verif

package main

import (
	"path/filepath"
	"strings"

	"go.uber.org/thriftrw/compile"
)

func init() {
	verifHarnesses["h17m"] = h17m
}

func zzMainMod(path string) *compile.Module {
	return &compile.Module{Name: "m", ThriftPath: path, Includes: map[string]*compile.IncludedModule{},
		Constants: map[string]*compile.Constant{}, Types: map[string]compile.TypeSpec{}, Services: map[string]*compile.ServiceSpec{}}
}

// h17m: the inferred thrift root (deepest common ancestor) really is an
// ancestor of the root file and of every included file, so every generated
// path is a descendant of the output directory. Directory names are
// symbolic strings (no separator, no leading dot).
func h17m() {
	dir := func(n int) string {
		s := verifString(n)
		for i := 0; i < len(s); i++ {
			verifAssume(s[i] != '/' && s[i] != 0)
		}
		verifAssume(s[0] != '.')
		return s
	}
	d1 := dir(1 + verifChoice(verifParam("l")))
	d2 := dir(1 + verifChoice(verifParam("l")))
	deep := verifChoice(2) == 1
	root := zzMainMod("/r/" + d1 + "/a.thrift")
	incPath := "/r/" + d2 + "/b.thrift"
	if deep {
		incPath = "/r/" + d1 + "/" + d2 + "/b.thrift"
	}
	inc := zzMainMod(incPath)
	root.Includes["b"] = &compile.IncludedModule{Name: "b", Module: inc}
	anc, err := findCommonAncestor(root)
	verifAssert(err == nil, "common-ancestor-found")
	verifObserveStr("ancestor", anc)
	for _, p := range []string{root.ThriftPath, inc.ThriftPath} {
		rel, rerr := filepath.Rel(anc, p)
		verifAssert(rerr == nil, "relative-path-exists")
		verifAssert(!strings.HasPrefix(rel, ".."), "file-beneath-inferred-root")
	}
	verifAssert(verifyAncestry(root, anc) == nil, "ancestry-verified")
	verifReached("end")
}

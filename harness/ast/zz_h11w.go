//go:build verif

package ast

import "math"

func init() {
	verifHarnesses["h11w"] = h11w
}

type zzCounter struct {
	visits  int
	badPar  int
	scalars int
	parent  map[int]int // visit index -> expected parent kind (unused; kept simple)
	root    Node
	prog    *Program
	consts  []*Constant
}

func (c *zzCounter) Visit(w Walker, n Node) Visitor {
	c.visits++
	switch v := n.(type) {
	case *Program:
		if w.Parent() != nil {
			c.badPar++
		}
	case *Constant:
		if w.Parent() != Node(c.prog) {
			c.badPar++
		}
	case ConstantInteger, ConstantBoolean, ConstantString, ConstantDouble:
		_ = v
		c.scalars++
		if w.Parent() == nil {
			c.badPar++
		}
	}
	return c
}

// h11w: a traversal visits every node exactly once whatever the values of
// the scalar constants are (zero values included), each with a parent.
func h11w() {
	i := ConstantInteger(verifI64())
	b := ConstantBoolean(verifBool())
	s := ConstantString(verifString(verifChoice(2)))
	d := ConstantDouble(math.Float64frombits(verifU64()))
	typ := BaseType{ID: I64TypeID}
	prog := &Program{}
	mk := func(name string, v ConstantValue) *Constant {
		c := &Constant{Name: name, Type: typ, Value: v}
		prog.Definitions = append(prog.Definitions, c)
		return c
	}
	c := &zzCounter{prog: prog}
	c.consts = append(c.consts, mk("i", i), mk("b", b), mk("s", s), mk("d", d))
	mk("l", ConstantList{Items: []ConstantValue{i, s}})
	mk("m", ConstantMap{Items: []ConstantMapItem{{Key: s, Value: b}}})
	Walk(c, prog)
	// nodes: program 1; 6 constants each with its BaseType (6+6);
	// scalar values 4; list node 1 + 2 items; map node 1 + item 1 + key + value
	want := 1 + 12 + 4 + 3 + 4
	verifObserveInt("visits", int64(c.visits))
	verifAssert(c.visits == want, "every-node-visited-exactly-once")
	verifAssert(c.scalars == 4+2+2, "scalar-constants-visited")
	verifAssert(c.badPar == 0, "true-parent")

	// a visitor per subtree (as go/ast-style visitors do), optionally pruning
	// one subtree: every node must be handed the visitor its parent's Visit
	// returned, and pruning one subtree must not affect its later siblings
	c2 := &zzCounter{prog: prog}
	prune := verifChoice(3)
	Walk(&zzScoped{c: c2, depth: 0, kind: zzKind(nil), prune: prune}, prog)
	want2 := want
	if prune != 0 {
		want2 = want - 2 // the two items of the list / the type and value of constant "i"
	}
	verifObserveInt("scoped-visits", int64(c2.visits))
	verifAssert(c2.visits == want2, "pruning-skips-exactly-the-subtree")
	verifAssert(c2.badPar == 0, "visitor-returned-by-the-parent")
	verifReached("end")
}

func zzKind(n Node) int {
	switch n.(type) {
	case nil:
		return 0
	case *Program:
		return 1
	case *Constant:
		return 2
	case BaseType:
		return 3
	case ConstantList:
		return 4
	case ConstantMap:
		return 5
	case ConstantMapItem:
		return 6
	}
	return 7
}

// zzScoped is the visitor returned for the children of one node.
type zzScoped struct {
	c     *zzCounter
	depth int
	kind  int // kind of the node whose Visit returned this visitor
	prune int
}

func (v *zzScoped) Visit(w Walker, n Node) Visitor {
	v.c.visits++
	if len(w.Ancestors()) != v.depth || zzKind(w.Parent()) != v.kind {
		v.c.badPar++
	}
	if _, isList := n.(ConstantList); isList && v.prune == 1 {
		return nil
	}
	if k, isConst := n.(*Constant); isConst && v.prune == 2 && k.Name == "i" {
		return nil
	}
	return &zzScoped{c: v.c, depth: v.depth + 1, kind: zzKind(n), prune: v.prune}
}

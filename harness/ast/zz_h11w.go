//go:build verif

package ast

import "math"

func init() {
	verifHarnesses["h11w"] = h11w
}

type zzCounter struct {
	visits  int
	badPar  int
	scalars int
	parent  map[int]int // visit index -> expected parent kind (unused; kept simple)
	root    Node
	prog    *Program
	consts  []*Constant
}

func (c *zzCounter) Visit(w Walker, n Node) Visitor {
	c.visits++
	switch v := n.(type) {
	case *Program:
		if w.Parent() != nil {
			c.badPar++
		}
	case *Constant:
		if w.Parent() != Node(c.prog) {
			c.badPar++
		}
	case ConstantInteger, ConstantBoolean, ConstantString, ConstantDouble:
		_ = v
		c.scalars++
		if w.Parent() == nil {
			c.badPar++
		}
	}
	return c
}

// h11w: a traversal visits every node exactly once whatever the values of
// the scalar constants are (zero values included), each with a parent.
func h11w() {
	i := ConstantInteger(verifI64())
	b := ConstantBoolean(verifBool())
	s := ConstantString(verifString(verifChoice(2)))
	d := ConstantDouble(math.Float64frombits(verifU64()))
	typ := BaseType{ID: I64TypeID}
	prog := &Program{}
	mk := func(name string, v ConstantValue) *Constant {
		c := &Constant{Name: name, Type: typ, Value: v}
		prog.Definitions = append(prog.Definitions, c)
		return c
	}
	c := &zzCounter{prog: prog}
	c.consts = append(c.consts, mk("i", i), mk("b", b), mk("s", s), mk("d", d))
	mk("l", ConstantList{Items: []ConstantValue{i, s}})
	mk("m", ConstantMap{Items: []ConstantMapItem{{Key: s, Value: b}}})
	Walk(c, prog)
	// nodes: program 1; 6 constants each with its BaseType (6+6);
	// scalar values 4; list node 1 + 2 items; map node 1 + item 1 + key + value
	want := 1 + 12 + 4 + 3 + 4
	verifObserveInt("visits", int64(c.visits))
	verifAssert(c.visits == want, "every-node-visited-exactly-once")
	verifAssert(c.scalars == 4+2+2, "scalar-constants-visited")
	verifAssert(c.badPar == 0, "true-parent")
	verifReached("end")
}

//go:build verif

package plugin

import (
	"bytes"

	"go.uber.org/thriftrw/plugin/api"
	"go.uber.org/thriftrw/protocol/binary"
)

func init() {
	verifHarnesses["h16c"] = h16c
}

type zzGen struct{}

func (zzGen) Generate(*api.GenerateServiceRequest) (*api.GenerateServiceResponse, error) {
	return &api.GenerateServiceResponse{Files: map[string][]byte{}}, nil
}

func zzQ32(out []byte, v uint32) []byte {
	return append(out, byte(v>>24), byte(v>>16), byte(v>>8), byte(v))
}

func zzFrame(out []byte, typ byte, method string, seq uint32, body []byte) []byte {
	n := 4 + 4 + len(method) + 4 + len(body)
	out = zzQ32(out, uint32(n))
	out = append(out, 0x80, 0x01, 0x00, typ)
	out = zzQ32(out, uint32(len(method)))
	out = append(out, method...)
	out = zzQ32(out, seq)
	return append(out, body...)
}

// h16c: a plugin built with the library answers handshake and goodbye and
// then stops.
func h16c() {
	l := verifParam("l")
	name := verifString(l)
	withGen := verifChoice(2) == 1
	seq1, seq2 := uint32(verifI32()), uint32(verifI32())

	var in []byte
	in = zzFrame(in, 1, "Plugin:handshake", seq1, []byte{0x0c, 0x00, 0x01, 0x00, 0x00})
	in = zzFrame(in, 1, "Plugin:goodbye", seq2, []byte{0x00})
	var out bytes.Buffer
	p := &Plugin{Name: name, Reader: bytes.NewReader(in), Writer: &out}
	if withGen {
		p.ServiceGenerator = zzGen{}
	}
	Main(p)

	o := out.Bytes()
	verifAssert(len(o) >= 4, "first-frame-present")
	n1 := int(o[0])<<24 | int(o[1])<<16 | int(o[2])<<8 | int(o[3])
	verifAssert(len(o) >= 4+n1+4, "second-frame-present")
	e1, err := binary.Default.DecodeEnveloped(bytes.NewReader(o[4 : 4+n1]))
	verifAssert(err == nil, "handshake-reply-decodes")
	verifAssert(e1.Type == 2, "handshake-reply-type")
	verifAssert(e1.Name == "Plugin:handshake", "handshake-reply-name")
	verifAssert(uint32(e1.SeqID) == seq1, "handshake-reply-seqid")
	var res api.Plugin_Handshake_Result
	verifAssert(res.FromWire(e1.Value) == nil, "handshake-result-decodes")
	verifAssert(res.Success != nil, "handshake-success")
	verifAssert(len(res.Success.Name) == l, "handshake-name-len")
	d := byte(0)
	for i := 0; i < l; i++ {
		d |= res.Success.Name[i] ^ name[i]
	}
	verifAssert(d == 0, "handshake-name")
	verifAssert(res.Success.APIVersion == api.APIVersion, "handshake-version")
	if withGen {
		verifAssert(len(res.Success.Features) == 1 && res.Success.Features[0] == api.FeatureServiceGenerator, "feature-advertised")
	} else {
		verifAssert(len(res.Success.Features) == 0, "no-feature-advertised")
	}
	rest := o[4+n1:]
	n2 := int(rest[0])<<24 | int(rest[1])<<16 | int(rest[2])<<8 | int(rest[3])
	verifAssert(len(rest) == 4+n2, "exactly-two-frames")
	e2, err := binary.Default.DecodeEnveloped(bytes.NewReader(rest[4:]))
	verifAssert(err == nil, "goodbye-reply-decodes")
	verifAssert(e2.Type == 2 && e2.Name == "Plugin:goodbye" && uint32(e2.SeqID) == seq2, "goodbye-reply-echo")
	verifReached("end")
}
